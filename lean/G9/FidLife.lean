/-
  G9.FidLife — M6: the life of the fids of one connection under any interleaving.
  Mirror of srv_srv.go (`FidNew`, `FidGet`, `retain`, `IncRef`, `DecRef`, `destroy`) and of the
  fid part of `Conn.close` (srv_conn.go).  An event is one lock-protected region of the code (or
  one call that is not under a lock: the close of `conn.done`, the call of the file server's
  `FidDestroy`); the names in brackets are the `verifPoint`s that log them.  Any sequence of
  enabled events is a schedule.

  A fid *number* can be reused, so the model speaks of fid *objects* (`*SrvFid`), numbered in the
  order `FidNew` created them.  What requests do is not modelled here (that is M3/M4); what is
  assumed of them is only the discipline M3 proves one request at a time: a request releases a
  reference it owns (`dec` needs `holds ≥ 1`; `release` — Tclunk/Tremove's post-handler and
  Conn.close — hands the table's reference to the caller, who then releases it like any other),
  and the request that created a fid calls `retain` before it releases its own reference
  (`retain` needs `holds ≥ 1`).
-/
namespace G9.FidLife

/-- one `SrvFid` -/
structure FObj where
  num : Nat                 -- fid.fid
  ref : Int := 1            -- fid.refcount (Go `int`)
  pending : Bool := true    -- fid.pending
  destroyed : Bool := false -- fid.destroyed
  nd : Nat := 0             -- ghost: calls of the file server's FidDestroy made for it
  calls : Nat := 0          -- destroy() past its flag region with done = false, FidDestroy not yet called
  holds : Nat := 1          -- ghost: references owned by requests
  tbl : Bool := false       -- fid.kept: the table's own reference exists
  dyA : Nat := 0            -- DecRef past its first region with n ≤ 0, before the pool deletion
  dyB : Nat := 0            -- destroy() called by DecRef, flag region not yet run
  deriving Repr

structure FS where
  n : Nat := 0                              -- objects created so far
  obj : Nat → FObj := fun _ => { num := 0 }
  pool : Nat → Option Nat := fun _ => none  -- conn.fidpool: number ↦ object
  closed : Bool := false                    -- conn.done is closed
  snap : Option (List Nat) := none          -- Conn.close: objects still to visit (`none`: no snapshot yet)

def updO (f : Nat → FObj) (i : Nat) (v : FObj) : Nat → FObj := fun j => if j = i then v else f j
def updP (f : Nat → Option Nat) (k : Nat) (v : Option Nat) : Nat → Option Nat := fun j => if j = k then v else f j

@[simp] theorem updO_same (f : Nat → FObj) (i : Nat) (v : FObj) : updO f i v i = v := by simp [updO]
@[simp] theorem updO_other (f : Nat → FObj) (i j : Nat) (v : FObj) (h : j ≠ i) : updO f i v j = f j := by simp [updO, h]
@[simp] theorem updP_same (f : Nat → Option Nat) (i : Nat) (v : Option Nat) : updP f i v i = v := by simp [updP]
@[simp] theorem updP_other (f : Nat → Option Nat) (i j : Nat) (v : Option Nat) (h : j ≠ i) : updP f i v j = f j := by simp [updP, h]

/-- the object is the one the table has under its number -/
def FS.inpool (s : FS) (o : Nat) : Prop := s.pool (s.obj o).num = some o

instance (s : FS) (o : Nat) : Decidable (s.inpool o) := by unfold FS.inpool; infer_instance

inductive FEv where
  | new (k : Nat)              -- FidNew, the number is free                           [@fid.new]
  | look (k : Nat) (r : Option Nat)  -- FidGet: the table lookup under the connection lock   [@fid.lookup]
  | get (o : Nat)              -- FidGet: the test of `pending` and the increment       [@fid.get]
  | retain (o : Nat)           -- retain: `closed`, increment, `pending = false`        [@fid.retain]
  | inc (o : Nat)              -- IncRef (walk in place)                                [@fid.inc]
  | release (o : Nat)          -- release(): take the table's reference, if it still has one [@fid.release]
  | dec (o : Nat)              -- DecRef, first region                                   [@fid.dec]
  | unpool (o : Nat)           -- DecRef, second region: delete the table entry if it is this fid [@fid.unpool]
  | dstr (o : Nat)             -- destroy(): test-and-set of `destroyed`                [@fid.destroy]
  | call (o : Nat)             -- destroy(): the file server's FidDestroy               [fid.destroy.call]
  | closeDone                  -- Conn.close: close(conn.done)                          [close.done]
  | snapshot (l : List Nat)    -- Conn.close: copy of the table under the connection lock [@close.snapshot]
  | visit                      -- Conn.close: one fid of the copy: release() unless pending [@close.visit]
  deriving Repr

def setO (s : FS) (o : Nat) (v : FObj) : FS := { s with obj := updO s.obj o v }

/-- one event; `none` when it is not enabled -/
def FS.step (s : FS) : FEv → Option FS
  | .new k =>
    match s.pool k with
    | some _ => none
    | none => some { s with n := s.n + 1, obj := updO s.obj s.n { num := k }, pool := updP s.pool k (some s.n) }
  | .look k r => if s.pool k = r ∧ (∀ o, r = some o → o < s.n) then some s else none
  | .get o =>
    if o < s.n then
      let x := s.obj o
      if x.pending ∨ x.ref ≤ 0 then some s           -- being created, or already dead: FidGet returns nil
      else some (setO s o { x with ref := x.ref + 1, holds := x.holds + 1 })
    else none
  | .retain o =>
    let x := s.obj o
    if o < s.n ∧ x.pending = true ∧ 1 ≤ x.holds then
      if s.closed then some (setO s o { x with pending := false })
      else some (setO s o { x with ref := x.ref + 1, tbl := true, pending := false })
    else none
  | .inc o =>
    let x := s.obj o
    if o < s.n ∧ 1 ≤ x.holds then some (setO s o { x with ref := x.ref + 1, holds := x.holds + 1 }) else none
  | .release o =>
    let x := s.obj o
    if o < s.n then
      if x.tbl then some (setO s o { x with tbl := false, holds := x.holds + 1 }) else some s
    else none
  | .dec o =>
    let x := s.obj o
    if o < s.n ∧ 1 ≤ x.holds then
      let x1 : FObj := { x with ref := x.ref - 1, holds := x.holds - 1 }
      some (setO s o (if x1.ref ≤ 0 then { x1 with dyA := x1.dyA + 1 } else x1))
    else none
  | .unpool o =>
    let x := s.obj o
    if o < s.n ∧ 1 ≤ x.dyA then
      let s1 := setO s o { x with dyA := x.dyA - 1, dyB := x.dyB + 1 }
      if s.pool x.num = some o then some { s1 with pool := updP s.pool x.num none } else some s1
    else none
  | .dstr o =>
    let x := s.obj o
    if o < s.n ∧ 1 ≤ x.dyB then
      if x.destroyed then some (setO s o { x with dyB := x.dyB - 1 })
      else some (setO s o { x with dyB := x.dyB - 1, destroyed := true, calls := x.calls + 1 })
    else none
  | .call o =>
    let x := s.obj o
    if o < s.n ∧ 1 ≤ x.calls then some (setO s o { x with calls := x.calls - 1, nd := x.nd + 1 }) else none
  | .closeDone => if s.closed then none else some { s with closed := true }
  | .snapshot l =>
    if s.closed ∧ s.snap = none ∧ l.Nodup ∧ (∀ o, o ∈ l → o < s.n ∧ s.inpool o) ∧
        (∀ o, o < s.n → s.inpool o → o ∈ l) then some { s with snap := some l }
    else none
  | .visit =>
    match s.snap with
    | some (o :: rest) =>
      let x := s.obj o
      if x.pending = false ∧ x.tbl = true then
        some { (setO s o { x with tbl := false, holds := x.holds + 1 }) with snap := some rest }
      else some { s with snap := some rest }
    | _ => none

def FS.run (s : FS) : List FEv → Option FS
  | [] => some s
  | e :: es => (s.step e).bind (fun s' => s'.run es)

def FS.init : FS := {}

/-- nothing is in flight any more: every request has released what it held, every DecRef and
    destroy() has run to its end, and Conn.close has visited its whole copy of the table -/
def FS.quiescent (s : FS) : Prop :=
  s.snap = some [] ∧ ∀ o, o < s.n → (s.obj o).holds = 0 ∧ (s.obj o).dyA = 0 ∧ (s.obj o).dyB = 0 ∧ (s.obj o).calls = 0

end G9.FidLife
