/-
  G9.Wire.Spec — the wire layout as the protocol documents define it
  (intro(5) of 9P2000 and the 9P2000.u extension draft).  Written from the protocol,
  shares no code with the mirror of go9p's packers in G9.Wire.Go.

    size[4] type[1] tag[2] body        all integers little-endian
    string  = len[2] bytes
    qid     = type[1] version[4] path[8]
    stat    = size[2] type[2] dev[4] qid[13] mode[4] atime[4] mtime[4] length[8]
              name[s] uid[s] gid[s] muid[s]   (.u: extension[s] n_uid[4] n_gid[4] n_muid[4])
-/
import G9.Wire.Msg
namespace G9.Spec

def str (s : Bytes) : Bytes := p16 (UInt16.ofNat s.length) ++ s

def qid (q : Qid) : Bytes := p8 q.typ ++ p32 q.vers ++ p64 q.path

/-- stat body, i.e. everything after the record's own size[2]. -/
def statBody (dotu : Bool) (d : Stat) : Bytes :=
  p16 d.typ ++ p32 d.dev ++ qid d.qid ++ p32 d.mode ++ p32 d.atime ++ p32 d.mtime ++
  p64 d.length ++ str d.name ++ str d.uid ++ str d.gid ++ str d.muid ++
  (if dotu then str d.ext ++ p32 d.uidnum ++ p32 d.gidnum ++ p32 d.muidnum else [])

/-- a stat record: size[2] counts the bytes that follow it. -/
def stat (dotu : Bool) (d : Stat) : Bytes :=
  let b := statBody dotu d
  p16 (UInt16.ofNat b.length) ++ b

def strs : List Bytes → Bytes
  | [] => []
  | s :: r => str s ++ strs r

def qids : List Qid → Bytes
  | [] => []
  | q :: r => qid q ++ qids r

/-- message body (after size, type, tag). -/
def body (dotu : Bool) : Msg → Bytes
  | .tversion ms v | .rversion ms v => p32 ms ++ str v
  | .tauth afid un an n => p32 afid ++ str un ++ str an ++ (if dotu then p32 n else [])
  | .rauth q | .rattach q => qid q
  | .tattach f af un an n =>
      p32 f ++ p32 af ++ str un ++ str an ++ (if dotu then p32 n else [])
  | .rerror e c => str e ++ (if dotu then p32 c else [])
  | .tflush t => p16 t
  | .twalk f nf ns => p32 f ++ p32 nf ++ p16 (UInt16.ofNat ns.length) ++ strs ns
  | .rwalk qs => p16 (UInt16.ofNat qs.length) ++ qids qs
  | .topen f m => p32 f ++ p8 m
  | .ropen q io | .rcreate q io => qid q ++ p32 io
  | .tcreate f n p m e => p32 f ++ str n ++ p32 p ++ p8 m ++ (if dotu then str e else [])
  | .tread f o c => p32 f ++ p64 o ++ p32 c
  | .rread d => p32 (UInt32.ofNat d.length) ++ d
  | .twrite f o c d => p32 f ++ p64 o ++ p32 c ++ d
  | .rwrite c => p32 c
  | .tclunk f | .tremove f | .tstat f => p32 f
  | .rstat d => let s := stat dotu d; p16 (UInt16.ofNat s.length) ++ s
  | .twstat f d => let s := stat dotu d; p32 f ++ p16 (UInt16.ofNat s.length) ++ s
  | .rflush | .rclunk | .rremove | .rwstat => []

def encode (dotu : Bool) (tag : UInt16) (m : Msg) : Bytes :=
  let b := body dotu m
  p32 (UInt32.ofNat (7 + b.length)) ++ p8 m.code ++ p16 tag ++ b

/-! ### "representable on the wire" -/

def strOk (s : Bytes) : Prop := s.length < 65536

instance (s : Bytes) : Decidable (strOk s) := by unfold strOk; infer_instance

/-- the strings of a stat record fit their length fields -/
def statStrOk (dotu : Bool) (d : Stat) : Prop :=
  strOk d.name ∧ strOk d.uid ∧ strOk d.gid ∧ strOk d.muid ∧ (dotu = true → strOk d.ext)

instance (dotu : Bool) (d : Stat) : Decidable (statStrOk dotu d) := by unfold statStrOk; infer_instance

/-- …and the record fits its own size[2] -/
def statOk (dotu : Bool) (d : Stat) : Prop :=
  statStrOk dotu d ∧ (stat dotu d).length < 65536

instance (dotu : Bool) (d : Stat) : Decidable (statOk dotu d) := by unfold statOk; infer_instance

/-- what decoding needs: every string and count fits its wire field, the total fits
    size[4], and a Twrite's count is the length of its data.  (The size[2] fields of a
    stat record are not part of it: go9p's decoder ignores them.) -/
def RepW (dotu : Bool) (m : Msg) : Prop :=
  7 + (body dotu m).length < 4294967296 ∧
  match m with
  | .tversion _ v | .rversion _ v => strOk v
  | .tauth _ un an _ | .tattach _ _ un an _ => strOk un ∧ strOk an
  | .rerror e _ => strOk e
  | .twalk _ _ ns => ns.length < 65536 ∧ ∀ n ∈ ns, strOk n
  | .rwalk qs => qs.length < 65536
  | .tcreate _ n _ _ e => strOk n ∧ (dotu = true → strOk e)
  | .twrite _ _ c d => c.toNat = d.length
  | .rstat d | .twstat _ d => statStrOk dotu d
  | _ => True

/-- "representable on the wire": `RepW`, and a stat record fits its size[2] fields. -/
def Rep (dotu : Bool) (m : Msg) : Prop :=
  RepW dotu m ∧
  match m with
  | .rstat d | .twstat _ d => (stat dotu d).length + 2 < 65536
  | _ => True

instance (dotu : Bool) (m : Msg) : Decidable (RepW dotu m) := by
  unfold RepW; cases m <;> simp only <;> infer_instance

instance (dotu : Bool) (m : Msg) : Decidable (Rep dotu m) := by
  unfold Rep; cases m <;> simp only <;> infer_instance

theorem Rep.w {dotu : Bool} {m : Msg} (h : Rep dotu m) : RepW dotu m := h.1

end G9.Spec
