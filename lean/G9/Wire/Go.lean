/-
  G9.Wire.Go — mirror of go9p's codec as the Go code is written
  (p9.go: g*/p*, gstr, gqid, gstat, statsz, pstat, PackDir, UnpackDir, packCommon, SetTag;
   packt.go / packr.go: the 27 constructors, InitRread, SetRreadCount; unpack.go: Unpack).

  A Go slice is a `List UInt8`.  Every read that Go would trap on (index or reslice out
  of range) is `Res.panic` here, so "Unpack never panics" is a statement about this
  model and not a by-product of totalisation.  The two minimum-size tables and the
  constants come from `G9.Generated`, which is rewritten from /repo on every run.
-/
import G9.Wire.Spec
import G9.Generated
namespace G9.Go

/-- classification of the errors `Unpack`/`UnpackDir`/`Pack*` return -/
inductive E where
  | bufShort      -- "buffer too short"               (len(buf) < 7)
  | sizeBad       -- "buffer too short: %d expected"  (size > len(buf) or size < 7)
  | idBad         -- "invalid id" / "invalid message id"
  | szerror       -- "invalid size"
  | statShort     -- gstat: "Buffer too short for basic 9p" / UnpackDir "short buffer"
  | statField     -- gstat: "d.Uid failed" etc.
  | packSmall     -- packCommon: "buffer too small"
  deriving Repr, DecidableEq

abbrev R := Res E

/-! ### primitive reads (p9.go) -/

/-- `buf[0:n], buf[n:]` — traps when `n > len(buf)`. -/
def need (n : Nat) (p : Bytes) : R (Bytes × Bytes) :=
  let h := p.take n
  if h.length < n then .panic else .ok (h, p.drop n)     -- i.e. `len(p) < n` traps

def dec16 : Bytes → UInt16
  | [a, b] => le16 a b
  | _ => 0
def dec32 : Bytes → UInt32
  | [a, b, c, d] => le32 a b c d
  | _ => 0
def dec64 : Bytes → UInt64
  | [a, b, c, d, e, f, g, h] => le64 a b c d e f g h
  | _ => 0

def gint8 (p : Bytes) : R (UInt8 × Bytes) :=
  match p with
  | a :: r => .ok (a, r)
  | [] => .panic
def gint16 (p : Bytes) : R (UInt16 × Bytes) := do
  let (h, r) ← need 2 p; pure (dec16 h, r)
def gint32 (p : Bytes) : R (UInt32 × Bytes) := do
  let (h, r) ← need 4 p; pure (dec32 h, r)
def gint64 (p : Bytes) : R (UInt64 × Bytes) := do
  let (h, r) ← need 8 p; pure (dec64 h, r)

/-- `gstr`: `none` is Go's `("", nil)`. -/
def gstr (p : Bytes) : Option (Bytes × Bytes) :=
  match p with
  | a :: b :: r =>
    let n := (le16 a b).toNat
    let s := r.take n
    if s.length < n then none else some (s, r.drop n)     -- i.e. `n > len(r)`
  | _ => none                                              -- `len(buf) < 2`

def gqid (p : Bytes) : R (Qid × Bytes) := do
  let (t, p) ← gint8 p
  let (v, p) ← gint32 p
  let (pa, p) ← gint64 p
  pure ({ typ := t, vers := v, path := pa }, p)

/-- `gstat` (after the fix: the 41 fixed bytes and the .u numeric tail are checked). -/
def gstat (dotu : Bool) (buf : Bytes) : R (Stat × Bytes) :=
  if buf.length < 41 then .err .statShort else do
  let (_, p) ← gint16 buf
  let (typ, p) ← gint16 p
  let (dev, p) ← gint32 p
  let (q, p) ← gqid p
  let (mode, p) ← gint32 p
  let (atime, p) ← gint32 p
  let (mtime, p) ← gint32 p
  let (len, p) ← gint64 p
  match gstr p with
  | none => .err .statShort
  | some (name, p) =>
  match gstr p with
  | none => .err .statField
  | some (uid, p) =>
  match gstr p with
  | none => .err .statField
  | some (gid, p) =>
  match gstr p with
  | none => .err .statField
  | some (muid, p) =>
  if dotu then
    match gstr p with
    | none => .err .statField
    | some (ext, p) =>
      if p.length < 12 then .err .statField else do
      let (un, p) ← gint32 p
      let (gn, p) ← gint32 p
      let (mn, p) ← gint32 p
      pure ({ typ := typ, dev := dev, qid := q, mode := mode, atime := atime, mtime := mtime,
              length := len, name := name, uid := uid, gid := gid, muid := muid, ext := ext,
              uidnum := un, gidnum := gn, muidnum := mn }, p)
  else
    pure ({ typ := typ, dev := dev, qid := q, mode := mode, atime := atime, mtime := mtime,
            length := len, name := name, uid := uid, gid := gid, muid := muid, ext := [],
            uidnum := NOUID, gidnum := NOUID, muidnum := NOUID }, p)

/-- `UnpackDir`: returns the record, the rest, and the amount consumed. -/
def unpackDir (dotu : Bool) (buf : Bytes) : R (Stat × Bytes × Nat) :=
  let sz := if dotu then 49 + 14 else 49
  if buf.length < sz then .err .statShort else do
  let (d, b) ← gstat dotu buf
  pure (d, b, buf.length - b.length)

/-! ### Unpack (unpack.go) -/

def gstrs : Nat → Bytes → Option (List Bytes × Bytes)
  | 0, p => some ([], p)
  | n + 1, p =>
    match gstr p with
    | none => none
    | some (s, p) =>
      match gstrs n p with
      | none => none
      | some (ss, p) => some (s :: ss, p)

def gqids : Nat → Bytes → R (List Qid × Bytes)
  | 0, p => .ok ([], p)
  | n + 1, p => do
    let (q, p) ← gqid p
    let (qs, p) ← gqids n p
    pure (q :: qs, p)

/-- table lookup `tbl[t - Tversion]`; Go traps on an index past the table. -/
def minSize (dotu : Bool) (t : UInt8) : R Nat :=
  let tbl := if dotu then Generated.minFcusize else Generated.minFcsize
  match tbl[t.toNat - Generated.Tversion]? with
  | some v => .ok v
  | none => .panic

/-- the per-type `switch` of `Unpack`; returns the message and the unread rest of the body -/
def unpackBody (dotu : Bool) (t : UInt8) (p : Bytes) : R (Msg × Bytes) :=
  if t = 100 ∨ t = 101 then do
    let (ms, p) ← gint32 p
    match gstr p with
    | none => .err .szerror
    | some (v, p) => pure (if t = 100 then .tversion ms v else .rversion ms v, p)
  else if t = 102 then do
    let (afid, p) ← gint32 p
    match gstr p with
    | none => .err .szerror
    | some (un, p) =>
    match gstr p with
    | none => .err .szerror
    | some (an, p) =>
      if dotu then
        if p.length ≥ 4 then do
          let (n, p) ← gint32 p
          pure (.tauth afid un an n, p)
        else pure (.tauth afid un an NOUID, p)
      else pure (.tauth afid un an NOUID, p)
  else if t = 103 ∨ t = 105 then do
    let (q, p) ← gqid p
    pure (if t = 103 then .rauth q else .rattach q, p)
  else if t = 108 then do
    let (ot, p) ← gint16 p
    pure (.tflush ot, p)
  else if t = 104 then do
    let (fid, p) ← gint32 p
    let (afid, p) ← gint32 p
    match gstr p with
    | none => .err .szerror
    | some (un, p) =>
    match gstr p with
    | none => .err .szerror
    | some (an, p) =>
      if dotu then
        if p.length ≥ 4 then do
          let (n, p) ← gint32 p
          pure (.tattach fid afid un an n, p)
        else pure (.tattach fid afid un an NOUID, p)
      else pure (.tattach fid afid un an 0, p)      -- Unamenum keeps Go's zero value
  else if t = 107 then
    match gstr p with
    | none => .err .szerror
    | some (e, p) =>
      if dotu then
        if p.length < 4 then .err .szerror else do
          let (c, p) ← gint32 p
          pure (.rerror e c, p)
      else pure (.rerror e 0, p)
  else if t = 110 then do
    let (fid, p) ← gint32 p
    let (nf, p) ← gint32 p
    let (m, p) ← gint16 p
    if p.length < 2 * m.toNat then .err .szerror else
    match gstrs m.toNat p with
    | none => .err .szerror
    | some (ns, p) => pure (.twalk fid nf ns, p)
  else if t = 111 then do
    let (m, p) ← gint16 p
    if p.length < 13 * m.toNat then .err .szerror else do
    let (qs, p) ← gqids m.toNat p
    pure (.rwalk qs, p)
  else if t = 112 then do
    let (fid, p) ← gint32 p
    let (mode, p) ← gint8 p
    pure (.topen fid mode, p)
  else if t = 113 ∨ t = 115 then do
    let (q, p) ← gqid p
    let (io, p) ← gint32 p
    pure (if t = 113 then .ropen q io else .rcreate q io, p)
  else if t = 114 then do
    let (fid, p) ← gint32 p
    match gstr p with
    | none => .err .szerror
    | some (name, p) =>
      if p.length < 5 then .err .szerror else do
      let (perm, p) ← gint32 p
      let (mode, p) ← gint8 p
      if dotu then
        match gstr p with
        | none => .err .szerror
        | some (ext, p) => pure (.tcreate fid name perm mode ext, p)
      else pure (.tcreate fid name perm mode [], p)
  else if t = 116 then do
    let (fid, p) ← gint32 p
    let (off, p) ← gint64 p
    let (cnt, p) ← gint32 p
    pure (.tread fid off cnt, p)
  else if t = 117 then do
    let (cnt, p) ← gint32 p
    if p.length < cnt.toNat then .err .szerror else do
    -- fc.Data = p (the whole rest); p = p[count:]
    let (_, r) ← need cnt.toNat p
    pure (.rread p, r)
  else if t = 118 then do
    let (fid, p) ← gint32 p
    let (off, p) ← gint64 p
    let (cnt, p) ← gint32 p
    if p.length ≠ cnt.toNat then .err .szerror else do
    let (_, r) ← need cnt.toNat p
    pure (.twrite fid off cnt p, r)
  else if t = 119 then do
    let (cnt, p) ← gint32 p
    pure (.rwrite cnt, p)
  else if t = 120 ∨ t = 122 ∨ t = 124 then do
    let (fid, p) ← gint32 p
    pure (if t = 120 then .tclunk fid else if t = 122 then .tremove fid else .tstat fid, p)
  else if t = 125 then do
    let (_, p) ← gint16 p
    let (d, p) ← gstat dotu p
    pure (.rstat d, p)
  else if t = 126 then do
    let (fid, p) ← gint32 p
    let (_, p) ← gint16 p
    let (d, p) ← gstat dotu p
    pure (.twstat fid d, p)
  else if t = 109 then pure (.rflush, p)
  else if t = 121 then pure (.rclunk, p)
  else if t = 123 then pure (.rremove, p)
  else if t = 127 then pure (.rwstat, p)
  else .err .idBad          -- `default:` of the switch (Terror)

/-- `Unpack` after the header and the reslice `p = p[0:size-7]`: type range check, table
    lookup, the per-type switch, the trailing-bytes check. -/
def unpackRest (dotu : Bool) (size : Nat) (t : UInt8) (tag : UInt16) (p : Bytes) :
    R (UInt16 × Msg × Nat) :=
  if t.toNat < Generated.Tversion ∨ t.toNat ≥ Generated.Tlast then .err .idBad else do
  let sz ← minSize dotu t
  if p.length < sz then .err .szerror else do
  let (m, rest) ← unpackBody dotu t p
  if rest.length > 0 then .err .szerror else
  pure (tag, m, size)

/-- `Unpack(buf, dotu)`: tag, message, bytes consumed. -/
def unpack (dotu : Bool) (buf : Bytes) : R (UInt16 × Msg × Nat) :=
  if buf.length < 7 then .err .bufShort else do
  let (size, p) ← gint32 buf
  let (t, p) ← gint8 p
  let (tag, p) ← gint16 p
  if size.toNat > buf.length ∨ size.toNat < 7 then .err .sizeBad else do
  let (p, _) ← need (size.toNat - 7) p
  unpackRest dotu size.toNat t tag p

/-- the only allocations of `Unpack` whose size is taken from a count field of the input:
    `make([]string, m)` in Twalk and `make([]Qid, m)` in Rwalk (16 bytes per element);
    0 when the guard in front of the `make` rejects the frame.  (Strings are copies of
    sub-slices of the input; after the fix a Twrite payload aliases the input.) -/
def makeBytes (t : UInt8) (p : Bytes) : Nat :=
  if t = 110 then
    match (do let (_, p) ← gint32 p; let (_, p) ← gint32 p; gint16 p : R (UInt16 × Bytes)) with
    | .ok (m, p) => if p.length < 2 * m.toNat then 0 else 16 * m.toNat
    | _ => 0
  else if t = 111 then
    match gint16 p with
    | .ok (m, p) => if p.length < 13 * m.toNat then 0 else 16 * m.toNat
    | _ => 0
  else 0

/-! ### the packers (packt.go, packr.go, p9.go) -/

def pstr (s : Bytes) : Bytes := p16 (UInt16.ofNat s.length) ++ s   -- uint16(len(val))

def pqid (q : Qid) : Bytes := p8 q.typ ++ p32 q.vers ++ p64 q.path

def statsz (dotu : Bool) (d : Stat) : Nat :=
  2 + 2 + 4 + 13 + 4 + 4 + 4 + 8 + 2 + 2 + 2 + 2 + d.name.length + d.uid.length + d.gid.length +
    d.muid.length + (if dotu then 2 + 4 + 4 + 4 + d.ext.length else 0)

def pstat (dotu : Bool) (d : Stat) : Bytes :=
  p16 (UInt16.ofNat (statsz dotu d - 2)) ++ p16 d.typ ++ p32 d.dev ++ pqid d.qid ++ p32 d.mode ++
  p32 d.atime ++ p32 d.mtime ++ p64 d.length ++ pstr d.name ++ pstr d.uid ++ pstr d.gid ++
  pstr d.muid ++
  (if dotu then pstr d.ext ++ p32 d.uidnum ++ p32 d.gidnum ++ p32 d.muidnum else [])

/-- `PackDir`: `make([]byte, statsz)` then `pstat` into it. -/
def packDir (dotu : Bool) (d : Stat) : Bytes := (pstat dotu d).take (statsz dotu d)

def pstrs : List Bytes → Bytes
  | [] => []
  | s :: r => pstr s ++ pstrs r
def pqids : List Qid → Bytes
  | [] => []
  | q :: r => pqid q ++ pqids r
def namesLen : List Bytes → Nat
  | [] => 0
  | s :: r => s.length + namesLen r

/-- The `size` each constructor computes (body only) and the bytes it then writes. -/
def packParts (dotu : Bool) : Msg → Nat × Bytes
  | .tversion ms v => (4 + 2 + v.length, p32 ms ++ pstr v)
  | .rversion ms v => (4 + 2 + v.length, p32 ms ++ pstr v)
  | .tauth afid un an n =>
      (4 + 2 + 2 + un.length + an.length + (if dotu then 4 else 0),
       p32 afid ++ pstr un ++ pstr an ++ (if dotu then p32 n else []))
  | .rauth q => (13, pqid q)
  | .tattach f af un an n =>
      (4 + 4 + 2 + un.length + 2 + an.length + (if dotu then 4 else 0),
       p32 f ++ p32 af ++ pstr un ++ pstr an ++ (if dotu then p32 n else []))
  | .rattach q => (13, pqid q)
  | .rerror e c => (2 + e.length + (if dotu then 4 else 0), pstr e ++ (if dotu then p32 c else []))
  | .tflush t => (2, p16 t)
  | .rflush => (0, [])
  | .twalk f nf ns =>
      (4 + 4 + 2 + ns.length * 2 + namesLen ns,
       p32 f ++ p32 nf ++ p16 (UInt16.ofNat ns.length) ++ pstrs ns)
  | .rwalk qs => (2 + qs.length * 13, p16 (UInt16.ofNat qs.length) ++ pqids qs)
  | .topen f m => (4 + 1, p32 f ++ p8 m)
  | .ropen q io => (13 + 4, pqid q ++ p32 io)
  | .tcreate f n p m e =>
      (4 + 2 + n.length + 4 + 1 + (if dotu then 2 + e.length else 0),
       p32 f ++ pstr n ++ p32 p ++ p8 m ++ (if dotu then pstr e else []))
  | .rcreate q io => (13 + 4, pqid q ++ p32 io)
  | .tread f o c => (4 + 8 + 4, p32 f ++ p64 o ++ p32 c)
  | .rread d => (4 + d.length, p32 (UInt32.ofNat d.length) ++ d)
  | .twrite f o c d => (4 + 8 + 4 + d.length, p32 f ++ p64 o ++ p32 c ++ d)
  | .rwrite c => (4, p32 c)
  | .tclunk f => (4, p32 f)
  | .rclunk => (0, [])
  | .tremove f => (4, p32 f)
  | .rremove => (0, [])
  | .tstat f => (4, p32 f)
  | .rstat d => (2 + statsz dotu d, p16 (UInt16.ofNat (statsz dotu d)) ++ pstat dotu d)
  | .twstat f d =>
      (4 + 2 + statsz dotu d, p32 f ++ p16 (UInt16.ofNat (statsz dotu d)) ++ pstat dotu d)
  | .rwstat => (0, [])

/-- `packCommon` + the constructor's writes.  `buf` is `fc.Buf`; the packet is
    `fc.Buf[0:size]`, so bytes the constructor did not write keep the buffer's old
    contents.  A write past the end of the buffer traps. -/
def pack (dotu : Bool) (m : Msg) (buf : Bytes) : R Bytes :=
  let (bsz, body) := packParts dotu m
  let size := bsz + 7
  if buf.length < size then .err .packSmall
  else
    let written := p32 (UInt32.ofNat size) ++ p8 m.code ++ p16 Generated.NOTAG ++ body
    if written.length > buf.length then .panic
    else .ok ((written ++ buf.drop written.length).take size)

/-- `SetTag`: `pint16(tag, fc.Pkt[5:])`. -/
def setTag (pkt : Bytes) (tag : UInt16) : R Bytes :=
  if pkt.length < 7 then .panic else .ok (pkt.take 5 ++ p16 tag ++ pkt.drop 7)

/-- `SetTag` on a reply whose packet still is the whole buffer (between `InitRread` and
    `SetRreadCount`): bytes 5 and 6 of the buffer -/
def tagBuf (b : Bytes) (tag : UInt16) : Bytes := b.take 5 ++ p16 tag ++ b.drop 7

/-- `InitRread(fc, count)` on `fc.Buf = buf`: the buffer afterwards (header and count
    written, data window untouched) and the packet size.  After the fix `size` is computed
    in `int`, so `4 + count` cannot wrap. -/
def rreadBuf (count : UInt32) (buf : Bytes) : Bytes :=
  p32 (UInt32.ofNat (11 + count.toNat)) ++ p8 117 ++ p16 Generated.NOTAG ++ p32 count ++ buf.drop 11

def initRread (count : UInt32) (buf : Bytes) : R (Bytes × Nat) :=
  let size := 11 + count.toNat
  if buf.length < size then .err .packSmall
  else .ok (rreadBuf count buf, size)

/-- the caller copies `fill` into `fc.Data` (Go's `copy`: as much as fits the window). -/
def fillData (bufAfter : Bytes) (count : Nat) (fill : Bytes) : Bytes :=
  let w := fill.take count
  bufAfter.take 11 ++ w ++ bufAfter.drop (11 + w.length)

/-- `SetRreadCount(fc, count)`: size (uint32 arithmetic, as in Go) and count rewritten,
    `Pkt` and `Data` resliced — within the capacity of the buffer, else a trap. -/
def setRreadCount (bufAfter : Bytes) (count : UInt32) : R Bytes :=
  let size : UInt32 := 4 + 1 + 2 + 4 + count
  if bufAfter.length < 11 then .panic
  else if size.toNat > bufAfter.length then .panic
  else if count.toNat > bufAfter.length - 11 then .panic
  else .ok ((p32 size ++ (bufAfter.drop 4).take 3 ++ p32 count ++ bufAfter.drop 11).take size.toNat)

/-! ### what decoding returns for a message encoded in a dialect (Go's defaults for the
    fields the dialect does not carry) -/

def normStat (dotu : Bool) (d : Stat) : Stat :=
  if dotu then d else { d with ext := [], uidnum := NOUID, gidnum := NOUID, muidnum := NOUID }

def norm (dotu : Bool) : Msg → Msg
  | .tauth a un an n => .tauth a un an (if dotu then n else NOUID)
  | .tattach f a un an n => .tattach f a un an (if dotu then n else 0)
  | .rerror e c => .rerror e (if dotu then c else 0)
  | .tcreate f n p m e => .tcreate f n p m (if dotu then e else [])
  | .rstat d => .rstat (normStat dotu d)
  | .twstat f d => .twstat f (normStat dotu d)
  | m => m

end G9.Go
