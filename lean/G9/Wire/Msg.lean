/-
  G9.Wire.Msg — the 27 message shapes of 9P2000 / 9P2000.u and the stat record.
  Strings are byte strings (Go strings carry arbitrary bytes).
-/
import G9.Prelude
namespace G9

structure Qid where
  typ : UInt8
  vers : UInt32
  path : UInt64
  deriving Repr, DecidableEq, Inhabited

/-- `Dir` of p9.go without the derived `Size` field. -/
structure Stat where
  typ : UInt16
  dev : UInt32
  qid : Qid
  mode : UInt32
  atime : UInt32
  mtime : UInt32
  length : UInt64
  name : Bytes
  uid : Bytes
  gid : Bytes
  muid : Bytes
  ext : Bytes
  uidnum : UInt32
  gidnum : UInt32
  muidnum : UInt32
  deriving Repr, DecidableEq, Inhabited

inductive Msg where
  | tversion (msize : UInt32) (version : Bytes)
  | rversion (msize : UInt32) (version : Bytes)
  | tauth (afid : UInt32) (uname aname : Bytes) (unamenum : UInt32)
  | rauth (aqid : Qid)
  | tattach (fid afid : UInt32) (uname aname : Bytes) (unamenum : UInt32)
  | rattach (qid : Qid)
  | rerror (ename : Bytes) (ecode : UInt32)
  | tflush (oldtag : UInt16)
  | rflush
  | twalk (fid newfid : UInt32) (wnames : List Bytes)
  | rwalk (wqids : List Qid)
  | topen (fid : UInt32) (mode : UInt8)
  | ropen (qid : Qid) (iounit : UInt32)
  | tcreate (fid : UInt32) (name : Bytes) (perm : UInt32) (mode : UInt8) (ext : Bytes)
  | rcreate (qid : Qid) (iounit : UInt32)
  | tread (fid : UInt32) (offset : UInt64) (count : UInt32)
  | rread (data : Bytes)
  | twrite (fid : UInt32) (offset : UInt64) (count : UInt32) (data : Bytes)
  | rwrite (count : UInt32)
  | tclunk (fid : UInt32)
  | rclunk
  | tremove (fid : UInt32)
  | rremove
  | tstat (fid : UInt32)
  | rstat (st : Stat)
  | twstat (fid : UInt32) (st : Stat)
  | rwstat
  deriving Repr, DecidableEq, Inhabited

/-- Wire type code (p9.go: `Tversion = 100 + iota`). -/
def Msg.code : Msg → UInt8
  | .tversion .. => 100 | .rversion .. => 101 | .tauth .. => 102 | .rauth .. => 103
  | .tattach .. => 104 | .rattach .. => 105 | .rerror .. => 107 | .tflush .. => 108
  | .rflush => 109 | .twalk .. => 110 | .rwalk .. => 111 | .topen .. => 112
  | .ropen .. => 113 | .tcreate .. => 114 | .rcreate .. => 115 | .tread .. => 116
  | .rread .. => 117 | .twrite .. => 118 | .rwrite .. => 119 | .tclunk .. => 120
  | .rclunk => 121 | .tremove .. => 122 | .rremove => 123 | .tstat .. => 124
  | .rstat .. => 125 | .twstat .. => 126 | .rwstat => 127

def NOTAG : UInt16 := 0xFFFF
def NOFID : UInt32 := 0xFFFFFFFF
def NOUID : UInt32 := 0xFFFFFFFF

end G9
