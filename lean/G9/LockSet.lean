/-
  G9.LockSet — the abstract argument behind C19's lock discipline: in any execution in which
  mutexes behave like mutexes and every access to a location is made while holding that
  location's guard, two accesses to one location by different threads are separated by a
  release of the guard by the first thread and a later acquisition by the second — the
  synchronisation edge the Go memory model (and its race detector) orders accesses by.
-/
namespace G9.LockSet

inductive Op where
  | acq (l : Nat)
  | rel (l : Nat)
  | acc (x : Nat) (write : Bool)
  deriving Repr, DecidableEq

structure Ev where
  tid : Nat
  op : Op
  deriving Repr, DecidableEq

/-- who holds each mutex -/
abbrev Holders := Nat → Option Nat

def setH (h : Holders) (l : Nat) (v : Option Nat) : Holders := fun k => if k = l then v else h k

/-- one event under mutex semantics and the discipline `guard` -/
def step (guard : Nat → Nat) (h : Holders) (e : Ev) : Option Holders :=
  match e.op with
  | .acq l => if h l = none then some (setH h l (some e.tid)) else none
  | .rel l => if h l = some e.tid then some (setH h l none) else none
  | .acc x _ => if h (guard x) = some e.tid then some h else none

def run (guard : Nat → Nat) : Holders → List Ev → Option Holders
  | h, [] => some h
  | h, e :: es => (step guard h e).bind (fun h' => run guard h' es)

end G9.LockSet
