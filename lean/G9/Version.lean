/-
  G9.Version — the client's half of the version exchange (clnt_clnt.go `Connect`), and the whole
  exchange against the framework's half (G9.SrvSeq `pre` on Tversion).
-/
import G9.SrvSeq
namespace G9.Version
open G9 G9.Srv

/-- the version string `Connect` sends -/
def clientVersion (cdotu : Bool) : Bytes := if cdotu then v9P2000u else v9P2000

/-- `Connect` after the Rversion arrived: msize only ever shrinks, the dialect is 9P2000.u only if
    the client asked for it and the server answered with it -/
def clientAfter (cm : UInt32) (cdotu : Bool) (rmsize : UInt32) (rver : Bytes) : UInt32 × Bool :=
  (if rmsize < cm then rmsize else cm, rver == v9P2000u && cdotu)

/-- the exchange on a fresh connection: what the client ends up with, and the server's connection -/
def connect (cfg : Cfg) (impl : Impl) (cm : UInt32) (cdotu : Bool) : Option ((UInt32 × Bool) × Conn) :=
  let r := step cfg impl (Conn.init cfg) (.tversion cm (clientVersion cdotu))
  match r.2.reply with
  | .r (.rversion ms v) => some (clientAfter cm cdotu ms v, r.1)
  | _ => none

end G9.Version
