/-
  G9.UfsPlan — which POSIX calls the Unix file server makes for a mutating request (C17).
  Mirror of the decision logic of `Ufs.Create` and `Ufs.Wstat` (ufs.go): the operating system's
  calls are symbols, the model says which of them are made, with which arguments, in which
  order; each call that fails ends the request with an Rerror (the calls before it stay made).
  What the calls do is the operating system's business.
-/
import G9.Prelude
namespace G9.UfsPlan

def DMDIR : Nat := 0x80000000
def DMSYMLINK : Nat := 0x02000000
def DMLINK : Nat := 0x01000000
def DMDEVICE : Nat := 0x00800000
def DMNAMEDPIPE : Nat := 0x00200000
def DMSETUID : Nat := 0x00080000
def DMSETGID : Nat := 0x00040000
def S_ISUID : Nat := 0x800
def S_ISGID : Nat := 0x400
def NOUID : Nat := 0xFFFFFFFF
def NO32 : Nat := 0xFFFFFFFF
def NO64 : Nat := 0xFFFFFFFFFFFFFFFF

def bit (v m : Nat) : Bool := v &&& m != 0

/-- one call into the `os`/`syscall` packages, on the path of the fid (or the new path) -/
inductive POp where
  | mkdir (fileMode : Nat)                 -- os.Mkdir(path, os.FileMode(fileMode))
  | symlink                                -- os.Symlink(ext, path)
  | link                                   -- os.Link(path of the fid named by ext, path)
  | openCreate (omode : Nat) (fileMode : Nat)  -- os.OpenFile(path, omode2uflags(omode)|O_CREATE, fileMode)
  | openPlain (omode : Nat)                -- os.OpenFile(path, omode2uflags(omode), 0)
  | chmod (fileMode : Nat)                 -- os.Chmod(path, os.FileMode(fileMode))
  | chown (uid gid : Nat)                  -- os.Chown(path, uid, gid)
  | rename                                 -- syscall.Rename(path, destination)
  | truncate (len : Nat)                   -- os.Truncate(path, len)
  | chtimes (atime : Nat) (mtime : Option Nat)  -- os.Chtimes(path, atime, mtime); `none`: the file's own mtime (os.Stat)
  deriving Repr, DecidableEq

inductive Plan where
  | refuse (why : String)                  -- an Rerror of the file server's own making, no call made
  | calls (l : List POp)
  deriving Repr, DecidableEq

/-- the mode handed to os.FileMode: the nine permission bits, plus the Unix setuid/setgid bits on
    a 9P2000.u connection -/
def fileMode (dotu : Bool) (perm : Nat) : Nat :=
  (perm &&& 0o777) ||| (if dotu && bit perm DMSETUID then S_ISUID else 0) |||
    (if dotu && bit perm DMSETGID then S_ISGID else 0)

/-- `Ufs.Create` after the name check (that is C18's `createPath`): `extInRoot` is the result of
    the root check of a symlink target, `extFid` whether ext parses as a number / names a fid -/
def createPlan (dotu : Bool) (perm omode : Nat) (extInRoot : Bool) (extNumber extFid : Bool) : Plan :=
  if bit perm DMDIR then .calls [.mkdir (perm &&& 0o777), .openPlain omode]
  else if bit perm DMSYMLINK then
    if extInRoot then .calls [.symlink, .openPlain omode] else .refuse "eperm"
  else if bit perm DMLINK then
    if !extNumber then .refuse "strconv"
    else if !extFid then .refuse "unknownfid"
    else .calls [.link, .openPlain omode]
  else if bit perm DMNAMEDPIPE then .calls [.openPlain omode]
  else if bit perm DMDEVICE then .refuse "notimpl"
  else .calls [.openCreate omode (fileMode dotu perm)]

/-- the fields of the Twstat's stat record that `Ufs.Wstat` looks at -/
structure WReq where
  mode : Nat
  uidnum : Nat
  gidnum : Nat
  hasUid : Bool        -- dir.Uid != ""
  hasGid : Bool
  hasName : Bool       -- dir.Name != ""
  destInRoot : Bool    -- the root check of the rename destination
  length : Nat
  mtime : Nat
  atime : Nat
  deriving Repr

/-- `Ufs.Wstat`; `lookupUid`/`lookupGid`: results of the by-name lookup on a plain 9P2000
    connection (`none`: the lookup failed, the request ends there) -/
def wstatPlan (dotu : Bool) (w : WReq) (lookupUid lookupGid : Option Nat) : Plan :=
  let p1 : List POp := if w.mode != NO32 then [.chmod (fileMode dotu w.mode)] else []
  let ids : Option (Nat × Nat) :=
    if dotu then some (w.uidnum, w.gidnum)
    else if w.hasUid || w.hasGid then
      match lookupUid, lookupGid with
      | some u, some g => some (u, g)
      | _, _ => none
    else some (NOUID, NOUID)
  match ids with
  | none => .refuse "lookup"          -- (after the chmod, if any)
  | some (uid, gid) =>
    let p2 : List POp := if uid != NOUID || gid != NOUID then [.chown uid gid] else []
    if w.hasName && !w.destInRoot then .refuse "eperm"   -- (after chmod and chown, if any)
    else
      let p3 : List POp := if w.hasName then [.rename] else []
      let p4 : List POp := if w.length != NO64 then [.truncate w.length] else []
      let p5 : List POp :=
        if w.mtime != NO32 || w.atime != NO32 then
          [.chtimes w.atime (if w.mtime == NO32 then none else some w.mtime)]
        else []
      .calls (p1 ++ p2 ++ p3 ++ p4 ++ p5)

/-- the calls made before a refusal of the file server's own (they are not undone) -/
def wstatBeforeRefusal (dotu : Bool) (w : WReq) (lookupUid lookupGid : Option Nat) : List POp :=
  let p1 : List POp := if w.mode != NO32 then [.chmod (fileMode dotu w.mode)] else []
  let ids : Option (Nat × Nat) :=
    if dotu then some (w.uidnum, w.gidnum)
    else if w.hasUid || w.hasGid then
      match lookupUid, lookupGid with
      | some u, some g => some (u, g)
      | _, _ => none
    else some (NOUID, NOUID)
  match ids with
  | none => p1
  | some (uid, gid) => p1 ++ (if uid != NOUID || gid != NOUID then [.chown uid gid] else [])

/-- a Twstat that asks for nothing -/
def WReq.nothing : WReq :=
  { mode := NO32, uidnum := NOUID, gidnum := NOUID, hasUid := false, hasGid := false, hasName := false,
    destInRoot := true, length := NO64, mtime := NO32, atime := NO32 }

end G9.UfsPlan
