/-
  G9.UfsMeta — how the Unix file server reports a file's type and permission bits (C16).
  Mirror of `dir2Npmode` and `dir2QidType` (ufs.go) over the bits of `os.FileMode` they look at.
-/
import G9.Prelude
namespace G9.UfsMeta

/-- what `dir2Npmode`/`dir2QidType` read from an `os.FileInfo` -/
structure FMode where
  perm : Nat            -- d.Mode() & 0777
  dir : Bool            -- d.IsDir()
  symlink : Bool        -- os.ModeSymlink
  socket : Bool         -- os.ModeSocket
  pipe : Bool           -- os.ModeNamedPipe
  device : Bool         -- os.ModeDevice
  setuid : Bool         -- os.ModeSetuid
  setgid : Bool         -- os.ModeSetgid
  deriving Repr, DecidableEq

def DMDIR : Nat := 0x80000000
def DMSYMLINK : Nat := 0x02000000
def DMDEVICE : Nat := 0x00800000
def DMNAMEDPIPE : Nat := 0x00200000
def DMSOCKET : Nat := 0x00100000
def DMSETUID : Nat := 0x00080000
def DMSETGID : Nat := 0x00040000
def QTDIR : Nat := 0x80
def QTSYMLINK : Nat := 0x02

def flag (b : Bool) (v : Nat) : Nat := if b then v else 0

/-- `dir2Npmode` -/
def npmode (m : FMode) (dotu : Bool) : Nat :=
  m.perm ||| flag m.dir DMDIR |||
    (if dotu then flag m.symlink DMSYMLINK ||| flag m.socket DMSOCKET ||| flag m.pipe DMNAMEDPIPE |||
      flag m.device DMDEVICE ||| flag m.setuid DMSETUID ||| flag m.setgid DMSETGID else 0)

/-- `dir2QidType` -/
def qidType (m : FMode) : Nat := flag m.dir QTDIR ||| flag m.symlink QTSYMLINK

end G9.UfsMeta
