/-
  G9.UfsLogic — M7: the arithmetic and decision logic of the Unix file server (ufs.go) and of
  the client's file helpers (clnt_read.go, clnt_write.go, clnt_walk.go, clnt_open.go).
  What the operating system does (Lstat, ReadAt, WriteAt, Readdir, Rename …) enters as
  parameters; what go9p computes around those calls is mirrored here.
-/
import G9.Prelude
namespace G9.Ufs

/-! ### directory reads (Ufs.Read, directory branch) -/

/-- `sort.SearchInts(a, x)` on a sorted slice: the least index whose element is ≥ x
    (`len(a)` if there is none) -/
def searchInts (a : List Nat) (x : Nat) : Nat := (a.takeWhile (· < x)).length

inductive WRes where
  | ok (count : Nat)        -- reply carries dirents[off : off+count]
  | badOffset               -- "bad offset in directory read"
  | tooSmall                -- "too small read size for dir entry"
  | panic                   -- a slice expression out of range (Go would trap)
  deriving Repr, DecidableEq

/-- the window computation over the serialized directory: `ends` = `fid.direntends`
    (end offset of every entry), `total` = `len(fid.dirents)`, request (off, cnt). -/
def window (ends : List Nat) (total off cnt : Nat) : WRes :=
  -- only offsets the protocol allows: 0, or the end of an entry
  let i := searchInts ends off
  if off ≠ 0 ∧ (off > total ∨ i ≥ ends.length ∨ ends.getD i 0 ≠ off) then .badOffset
  else
    let count := if off > total then 0 else if total - off > cnt then cnt else total - off
    let nextend := searchInts ends (off + count)
    -- cut back to the last whole entry; Go computes `direntends[nextend-1] - off` in int
    let count : Int :=
      if nextend < ends.length ∧ ends.getD nextend 0 > off + count then
        (if nextend > 0 then (ends.getD (nextend - 1) 0 : Int) - off else 0)
      else count
    if count = 0 ∧ off < total ∧ total > 0 then .tooSmall
    else if count < 0 ∨ off > total ∨ off + count.toNat > total then .panic   -- dirents[off : off+count]
    else .ok count.toNat

/-- end offsets of entries of the given sizes -/
def endsOf : List Nat → Nat → List Nat
  | [], _ => []
  | s :: rest, acc => (acc + s) :: endsOf rest (acc + s)

/-- the client following the protocol's offset rule with a fixed count: offsets visited and
    byte counts returned, until an empty reply (fuel = number of entries + 1) -/
def readAll (ends : List Nat) (total cnt : Nat) : Nat → Nat → List Nat × Bool
  | 0, _ => ([], false)
  | fuel + 1, off =>
    match window ends total off cnt with
    | .ok 0 => ([], true)
    | .ok c => let (cs, done) := readAll ends total cnt fuel (off + c); (c :: cs, done)
    | _ => ([], false)

/-- the records of the reply `dirents[off : off+c]`, each named by its end offset in the listing -/
def recordsIn (ends : List Nat) (off c : Nat) : List Nat := ends.filter (fun e => off < e && e ≤ off + c)

/-- `File.Readdir(0)` (clnt_read.go): read with the client's count until an empty reply and decode
    every reply record by record.  `foff` is `file.offset` (advanced by `File.Read` by the bytes
    returned), `doff` the local `offset` (advanced by `d.Size+2` per decoded record: to the end of
    the last record decoded) that the deferred assignment leaves in `file.offset`.  Result: the
    entries in the order returned, and the offset left behind; `none`: an Rerror, or out of fuel. -/
def readdir0 (ends : List Nat) (total cnt : Nat) : Nat → Nat → Nat → List Nat → Option (List Nat × Nat)
  | 0, _, _, _ => none
  | fuel + 1, foff, doff, acc =>
    match window ends total foff cnt with
    | .ok 0 => some (acc, doff)
    | .ok c =>
      let recs := recordsIn ends foff c
      readdir0 ends total cnt fuel (foff + c) (recs.getLastD doff) (acc ++ recs)
    | _ => none

/-! ### file reads and writes (Clnt.Read/Write, File.ReadAt/Readn/WriteAt/Written, Ufs.Read/Write) -/

/-- `os.File.ReadAt(buf[:n], off)` on a file with these contents (assumed POSIX behaviour) -/
def readAt (file : Bytes) (off n : Nat) : Bytes := (file.drop off).take n

/-- `os.File.WriteAt(d, off)`: the file is zero-extended to `off` if shorter -/
def writeAt (file : Bytes) (off : Nat) (d : Bytes) : Bytes :=
  (file ++ List.replicate (off - file.length) 0).take off ++ d ++ file.drop (off + d.length)

/-- `Iounit` as the client fixes it after Ropen/Rcreate -/
def iounit (srvIounit msize : Nat) : Nat :=
  if srvIounit = 0 ∨ srvIounit > msize - 24 then msize - 24 else srvIounit

/-- one `Clnt.Read` against Ufs: count clamped to iounit, data from ReadAt -/
def clntRead (file : Bytes) (io off cnt : Nat) : Bytes := readAt file off (min cnt io)

/-- `File.Readn(buf[:n], off)`: loop of ReadAt until the buffer is full or a read is empty -/
def readn (file : Bytes) (io : Nat) : Nat → Nat → Nat → Bytes
  | 0, _, _ => []
  | _ + 1, _, 0 => []
  | fuel + 1, off, n + 1 =>
    let b := clntRead file io off (n + 1)
    if b.length = 0 then []                       -- ReadAt returned io.EOF
    else b ++ readn file io fuel (off + b.length) (n + 1 - b.length)

/-- one `Clnt.Write` against Ufs: data clamped to iounit, WriteAt, count returned -/
def clntWrite (file : Bytes) (io off : Nat) (d : Bytes) : Bytes × Nat :=
  let d' := d.take io
  (writeAt file off d', d'.length)

/-- `File.Written(data, off)` -/
def written (io : Nat) : Nat → Bytes → Nat → Bytes → Bytes × Nat
  | 0, file, _, _ => (file, 0)
  | _ + 1, file, _, [] => (file, 0)
  | fuel + 1, file, off, d =>
    let (file', n) := clntWrite file io off d
    if n = 0 then (file', 0)
    else
      let (file'', m) := written io fuel file' (off + n) (d.drop n)
      (file'', n + m)

/-! ### walking (Ufs.Walk, Clnt.FWalk) -/

/-- `Ufs.Walk` over a lookup function (does `Lstat(path + "/" + name)` find something?):
    number of leading elements that exist -/
def walked {P N : Type} (step : P → N → Option P) : P → List N → Nat × P
  | p, [] => (0, p)
  | p, n :: ns =>
    match step p n with
    | none => (0, p)
    | some p' => let (k, q) := walked step p' ns; (k + 1, q)

inductive WalkRes (P : Type) where
  | enoent                       -- first element missing
  | rwalk (nqids : Nat) (newPath : Option P)   -- qids returned; path committed to newfid only if complete
  deriving Repr

def ufsWalk {P N : Type} (step : P → N → Option P) (p : P) (names : List N) : WalkRes P :=
  let (k, q) := walked step p names
  if k = 0 ∧ names ≠ [] then .enoent
  else .rwalk k (if k = names.length then some q else none)

/-- `Clnt.FWalk`: at most 16 names per Twalk, continuing in place -/
def fwalk {P N : Type} (step : P → N → Option P) : Nat → P → List N → Option P
  | 0, _, _ => none
  | fuel + 1, p, names =>
    let chunk := names.take 16
    match ufsWalk step p chunk with
    | .rwalk k (some q) =>
      if k ≠ chunk.length then none
      else if (names.drop 16).isEmpty then some q else fwalk step fuel q (names.drop 16)
    | _ => none

/-! ### mode tables -/

def O_RDONLY : Nat := 0
def O_WRONLY : Nat := 1
def O_RDWR : Nat := 2
def O_TRUNC : Nat := 512

/-- `omode2uflags` -/
def omode2uflags (mode : UInt8) : Nat :=
  let acc := match (mode &&& 3).toNat with
    | 0 => O_RDONLY      -- OREAD
    | 2 => O_RDWR        -- ORDWR
    | 1 => O_WRONLY      -- OWRITE
    | _ => O_RDONLY      -- OEXEC
  if mode &&& 16 != 0 then acc ||| O_TRUNC else acc

/-! ### path confinement (Ufs.inRoot, Walk, Create, Attach, Wstat) -/

abbrev Name := String

/-- `filepath.Clean` on an absolute path given as components: drops "" and ".", resolves
    ".." lexically (the parent of "/" is "/") -/
def cleanAcc : List Name → List Name → List Name
  | acc, [] => acc.reverse
  | acc, n :: ns =>
    if n = "" ∨ n = "." then cleanAcc acc ns
    else if n = ".." then cleanAcc acc.tail ns
    else cleanAcc (n :: acc) ns

def clean (p : List Name) : List Name := cleanAcc [] p

/-- `ufs.inRoot(p)`: the cleaned path is the root or below it -/
def inRoot (root p : List Name) : Bool := (clean root).isPrefixOf (clean p)

/-- one element of `Ufs.Walk`: the host path it looks up, `none` = no such file -/
def walkStep (root path : List Name) (name : Name) : Option (List Name) :=
  if name = ".." then
    let p := (clean path).dropLast
    if inRoot root p then some p else some path
  else if name.contains '/' then none
  else some (path ++ [name])

/-- `Ufs.Create`: the host path of the new file, `none` = refused -/
def createPath (path : List Name) (name : Name) : Option (List Name) :=
  if name = "." ∨ name = ".." ∨ name.contains '/' then none else some (path ++ [name])

end G9.Ufs
