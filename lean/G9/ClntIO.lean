/-
  G9.ClntIO — the client's hand-off of requests to its writer goroutine and the shutdown
  handshake between receiver and writer (clnt_clnt.go: `Rpcnb`'s select, `Clnt.send`, the
  `closed:` path of `Clnt.recv`).  Companion of G9.Clnt, which has the tags, the pending list and
  the error fan-out; here: who waits for whom on the unbuffered channels `reqout` and `done` and
  on `closed`.
    caller:   … clnt.Unlock(); select { case clnt.reqout <- r: | case <-clnt.closed: }
    writer:   for { select { case <-clnt.done: return | case req := <-clnt.reqout: write it } }
              (a failed Write closes the socket and goes back to the select)
    receiver: on any failure: clnt.done <- true; close(clnt.closed); fan the error out
-/
namespace G9.ClntIO

inductive W where
  | idle                    -- at its select
  | writing (i : Nat)       -- inside conn.Write with caller i's request
  | gone                    -- returned
  deriving Repr, DecidableEq

inductive R where
  | running
  | stopping                -- at `clnt.done <- true`
  | closed                  -- past close(clnt.closed): fanning out / finished
  deriving Repr, DecidableEq

structure HS where
  handing : List Nat := []        -- callers inside the select of Rpcnb
  taken : List Nat := []          -- ghost: callers whose request the writer took
  gaveup : List Nat := []         -- ghost: callers that left the select through `closed`
  w : W := .idle
  r : R := .running
  deriving Repr, DecidableEq

inductive Ev where
  | enq (i : Nat)           -- caller i reaches the select                     [rpcnb.enqueued]
  | handoff (i : Nat)       -- `clnt.reqout <- r` meets `req := <-clnt.reqout`  [clnt.send.take]
  | wrote                   -- conn.Write returned, all bytes written: back to the select
  | wfail                   -- conn.Write failed: socket closed, back to the select
  | rfail                   -- the receiver leaves its loop                     [clnt.recv.closed]
  | stop                    -- `clnt.done <- true` meets `<-clnt.done`; then close(clnt.closed)
  | giveup (i : Nat)        -- caller i takes `<-clnt.closed`                   [rpcnb.handoff, not taken]
  deriving Repr, DecidableEq

def HS.step (s : HS) : Ev → Option HS
  | .enq i => if i ∈ s.handing ∨ i ∈ s.taken ∨ i ∈ s.gaveup then none else some { s with handing := s.handing ++ [i] }
  | .handoff i =>
    if i ∈ s.handing ∧ s.w = .idle then some { s with handing := s.handing.erase i, taken := s.taken ++ [i], w := .writing i }
    else none
  | .wrote => match s.w with
    | .writing _ => some { s with w := .idle }
    | _ => none
  | .wfail => match s.w with
    | .writing _ => some { s with w := .idle }
    | _ => none
  | .rfail => if s.r = .running then some { s with r := .stopping } else none
  | .stop => if s.r = .stopping ∧ s.w = .idle then some { s with r := .closed, w := .gone } else none
  | .giveup i =>
    if i ∈ s.handing ∧ s.r = .closed then some { s with handing := s.handing.erase i, gaveup := s.gaveup ++ [i] }
    else none

def HS.run (s : HS) : List Ev → Option HS
  | [] => some s
  | e :: es => (s.step e).bind (fun s' => s'.run es)

def HS.init : HS := {}

/-- the writer as seeded change C10-6 had it: after a failed Write it returns -/
def HS.stepExit (s : HS) : Ev → Option HS
  | .wfail => match s.w with
    | .writing _ => some { s with w := .gone }
    | _ => none
  | e => s.step e

end G9.ClntIO
