/-
  G9.SrvLife — M4: the life of many requests on one connection.
  Mirror of srv_conn.go (`recv` enqueue, `send`), srv_srv.go (`process`, `Respond`, `Flush`)
  and srv_fcall.go (`flush`).  Goroutines are program counters; every event is one
  lock-protected region or one channel operation of the code (the names are those of the
  `verifPoint` schedule points).  Any sequence of enabled events is a schedule; the model
  allows a superset of the code's schedules (a nested `freq.Respond()` may interleave with
  its caller), so invariants proved here hold for every real schedule.
  What a request does to fids is M3's business (`respond.post` is opaque here).
-/
import G9.Prelude
namespace G9.Life

/-- worker program counter of a request -/
inductive WPC where
  | queued                        -- behind an older request with the same tag
  | start                         -- `go req.process()` issued
  | checked (flushed : Bool)      -- past the test of reqFlush in process()
  | inImpl                        -- inside the implementation's operation
  | fl0                           -- Tflush: inside srv.flush, before the lookup
  | fl1 (target : Option Nat)     -- after the lookup under the connection lock
  | fl2 (target : Nat) (cancel : Bool)   -- after the test-and-set under the target's lock
  | tail                          -- back in process(), before its final status update
  | ended
  deriving Repr, DecidableEq

structure Req where
  tag : Nat
  oldtag : Option Nat := none     -- `some t` for a Tflush
  fl : Bool := false              -- reqFlush
  wk : Bool := false              -- reqWork
  rs : Bool := false              -- reqResponded
  sv : Bool := false              -- reqSaved
  flushreq : Option Nat := none   -- req.flushreq: head of the chain of flush requests (linked through their own flushreq)
  prev : Option Nat := none       -- req.prev: the next newer request with the same tag
  wpc : WPC := .queued
  noRun : Bool := false           -- ghost: a Tflush marked it flushed before it started
  looked : Option Nat := none     -- ghost: the request this Tflush found when it looked up its old tag
  deriving Repr

/-- program counter of one call of `req.Respond()` -/
inductive IPC where
  | mark | post | queue | unlink | next | flushes | done
  deriving Repr, DecidableEq

structure Inst where
  rid : Nat
  pc : IPC := .mark
  oldFl : Bool := false           -- status&reqFlush as read at the mark
  nxt : Option Nat := none        -- nextreq
  cur : Option Nat := none        -- freq, the cursor of the loop over flushreqs
  sp : Bool := false              -- freq.Respond() has been called, freq = freq.flushreq has not
  deriving Repr

structure LS where
  n : Nat := 0                            -- requests received so far
  req : Nat → Req := fun _ => { tag := 0 }
  chain : Nat → List Nat := fun _ => []   -- conn.reqs[tag] as a list, newest first
  insts : List Inst := []
  reqout : List Nat := []
  wire : List Nat := []
  cap : Nat := 0                          -- Maxpend
  closed : Bool := false
  implLog : List Nat := []                -- ghost: requests handed to the implementation, in order
  unl : List Nat := []                    -- ghost: requests that have left the tag table through their own Respond

def upd (f : Nat → Req) (i : Nat) (v : Req) : Nat → Req := fun j => if j = i then v else f j
def updL (f : Nat → List Nat) (i : Nat) (v : List Nat) : Nat → List Nat := fun j => if j = i then v else f j

@[simp] theorem upd_same (f : Nat → Req) (i : Nat) (v : Req) : upd f i v i = v := by simp [upd]
@[simp] theorem upd_other (f : Nat → Req) (i j : Nat) (v : Req) (h : j ≠ i) : upd f i v j = f j := by simp [upd, h]

/-- `req.next.prev = req` for the newest request already in the table, if any -/
def linkPrev (f : Nat → Req) (hd : Option Nat) (r : Nat) : Nat → Req := fun j =>
  -- written point-wise: one look-up in `f` per access (as a partial application of a definition
  -- that builds the record first, the compiled code looked `f` up twice per layer, and the cost
  -- of reading a request doubled with every request received under a tag still in the table)
  match hd with
  | some h => if j = h then { f h with prev := some r } else f j
  | none => f j

/-- `srv.flush`'s lookup: the newest request in the table under the old tag — unless that is the
    Tflush itself (a Tflush naming its own tag: whatever it could have flushed ran before it) -/
def lookupTarget (chain : Nat → List Nat) (f ot : Nat) : Option Nat :=
  match (chain ot).head? with
  | some t => if t = f then none else some t
  | none => none

theorem lookupTarget_some {chain : Nat → List Nat} {f ot t : Nat} (h : lookupTarget chain f ot = some t) :
    (chain ot).head? = some t ∧ t ≠ f := by
  unfold lookupTarget at h
  split at h
  · rename_i t' ht
    split at h
    · cases h
    · cases h; exact ⟨ht, by assumption⟩
  · cases h

inductive Ev where
  | recv (tag : Nat) (oldtag : Option Nat)   -- Conn.recv enqueues a request          [recv.enqueued]
  | check (r : Nat)                           -- process(): test reqFlush, set reqWork   [process.check]
  | dispatch (r : Nat)                        -- Process(): the handler is entered
  | selfRespond (r : Nat)                     -- process() of a flushed request: Respond(); return
  | answer (r : Nat)                          -- the implementation (any goroutine) calls req.Respond*()
  | implFlush (r : Nat)                       -- the implementation's FlushOp calls req.Flush()
  | implReturn (r : Nat)                      -- the operation returns to process()
  | procEnd (r : Nat)                         -- process(): clear reqWork, set reqSaved    [process.end]
  | flushLookup (f : Nat)                     -- srv.flush under conn.Lock                 [flush.lookup]
  | flushMark (f : Nat)                       -- srv.flush under the target's lock         [flush.mark]
  | flushAct (f : Nat)                        -- r.Respond() for a cancelled target / FlushOp / own Respond
  | mark (i : Nat)                            -- Respond: test-and-set reqResponded        [respond.mark]
  | post (i : Nat)                            -- Respond: PostProcess                      [respond.post]
  | queue (i : Nat)                           -- Respond: conn.reqout <- req               [respond.queued]
  | unlink (i : Nat)                          -- Respond: under conn.Lock                  [respond.unlink]
  | next (i : Nat)                            -- Respond: go nextreq.process()
  | flushes (i : Nat)                         -- Respond: one iteration of the flushreqs loop
  | send                                      -- Conn.send: take from reqout and write     [send.take/send.write]
  | close                                     -- Conn.close
  deriving Repr

/-- `m.next = nil`: the list reachable from the table ends at `m` -/
def cutAfter (m : Nat) (l : List Nat) : List Nat :=
  if m ∈ l then l.takeWhile (· ≠ m) ++ [m] else l

def setInst (l : List Inst) (i : Nat) (v : Inst) : List Inst := l.set i v

/-- `req.next`: the next older request of the same tag still in the table's chain (newest first) -/
def olderOf (ch : List Nat) (r : Nat) : Option Nat := ((ch.dropWhile (· ≠ r)).tail).head?

def LS.step (s : LS) : Ev → Option LS
  | .recv tag oldtag =>
    if s.closed then none else
    let r := s.n
    let first := (s.chain tag).isEmpty
    -- req.next = conn.reqs[tag]; conn.reqs[tag] = req; req.next.prev = req
    let req0 := linkPrev s.req (s.chain tag).head? r
    some { s with n := s.n + 1,
                  req := upd req0 r { tag := tag, oldtag := oldtag, wpc := if first then .start else .queued },
                  chain := updL s.chain tag (r :: s.chain tag) }
  | .check r =>
    if r < s.n ∧ (s.req r).wpc = .start then
      let q := s.req r
      some { s with req := upd s.req r { q with wk := if q.fl then q.wk else true, wpc := .checked q.fl } }
    else none
  | .dispatch r =>
    if r < s.n ∧ (s.req r).wpc = .checked false then
      let q := s.req r
      match q.oldtag with
      | none => some { s with req := upd s.req r { q with wpc := .inImpl }, implLog := s.implLog ++ [r] }
      | some _ => some { s with req := upd s.req r { q with wpc := .fl0 } }
    else none
  | .selfRespond r =>
    if r < s.n ∧ (s.req r).wpc = .checked true then
      some { s with req := upd s.req r { s.req r with wpc := .ended }, insts := s.insts ++ [{ rid := r }] }
    else none
  | .answer r =>
    -- the implementation was handed r (now or earlier) and answers it, possibly again
    if r < s.n ∧ r ∈ s.implLog then some { s with insts := s.insts ++ [{ rid := r }] } else none
  | .implFlush r =>
    if r < s.n ∧ r ∈ s.implLog then
      some { s with req := upd s.req r { s.req r with fl := true }, insts := s.insts ++ [{ rid := r }] }
    else none
  | .implReturn r =>
    if r < s.n ∧ (s.req r).wpc = .inImpl then some { s with req := upd s.req r { s.req r with wpc := .tail } } else none
  | .procEnd r =>
    if r < s.n ∧ (s.req r).wpc = .tail then
      let q := s.req r
      some { s with req := upd s.req r { q with wk := false, sv := if q.rs then q.sv else true, wpc := .ended } }
    else none
  | .flushLookup f =>
    if f < s.n ∧ (s.req f).wpc = .fl0 then
      let q := s.req f
      match q.oldtag with
      | none => none
      | some ot =>
        match lookupTarget s.chain f ot with
        | none => some { s with req := upd s.req f { q with wpc := .fl1 none } }
        | some t =>
          -- f.flushreq = t.flushreq; t.flushreq = f
          let req1 := upd s.req f { q with flushreq := (s.req t).flushreq }
          let req2 := upd req1 t { req1 t with flushreq := some f }
          some { s with req := upd req2 f { req2 f with wpc := .fl1 (some t), looked := some t } }
    else none
  | .flushMark f =>
    if f < s.n then
      match (s.req f).wpc with
      | .fl1 (some t) =>
        let qt := s.req t
        let cancel := !(qt.wk || qt.sv)
        let early := cancel && (qt.wpc = .queued || qt.wpc = .start)
        let req1 := upd s.req t { qt with fl := if cancel then true else qt.fl, noRun := qt.noRun || early }
        some { s with req := upd req1 f { req1 f with wpc := .fl2 t cancel } }
      | _ => none
    else none
  | .flushAct f =>
    if f < s.n then
      match (s.req f).wpc with
      | .fl1 none =>          -- no request with that tag: answer the Tflush at once
        some { s with req := upd s.req f { s.req f with wpc := .tail }, insts := s.insts ++ [{ rid := f }] }
      | .fl2 t true =>        -- cancelled before work began: r.Respond()
        some { s with req := upd s.req f { s.req f with wpc := .tail }, insts := s.insts ++ [{ rid := t }] }
      | .fl2 _ false =>       -- being worked on: FlushOp (the implementation may call implFlush later)
        some { s with req := upd s.req f { s.req f with wpc := .tail } }
      | _ => none
    else none
  | .mark i =>
    match s.insts[i]? with
    | some it =>
      if it.pc = .mark then
        let q := s.req it.rid
        let s1 := { s with req := upd s.req it.rid { q with rs := true, wk := false } }
        if q.rs then some { s1 with insts := setInst s.insts i { it with pc := .done } }
        else some { s1 with insts := setInst s.insts i { it with pc := .post, oldFl := q.fl } }
      else none
    | none => none
  | .unlink i =>
    match s.insts[i]? with
    | some it =>
      if it.pc = .unlink then
        let q := s.req it.rid
        match olderOf (s.chain q.tag) it.rid with
        | some od =>     -- answered while waiting behind an older request of its tag: out of the chain, nobody started
          some { s with chain := updL s.chain q.tag ((s.chain q.tag).erase it.rid), unl := it.rid :: s.unl,
                        req := upd s.req od { s.req od with prev := q.prev },
                        insts := setInst s.insts i { it with pc := .next, nxt := none, cur := q.flushreq } }
        | none =>
        match q.prev with
        | none =>        -- delete(conn.reqs, tag); flushreqs = req.flushreq
          some { s with chain := updL s.chain q.tag [], unl := it.rid :: s.unl,
                        insts := setInst s.insts i { it with pc := .next, nxt := none, cur := q.flushreq } }
        | some m =>      -- nextreq.next = nil; flushreqs = nil
          let chain' := updL s.chain q.tag (cutAfter m (s.chain q.tag))
          match q.flushreq with
          | none =>
            some { s with chain := chain', unl := it.rid :: s.unl,
                          insts := setInst s.insts i { it with pc := .next, nxt := some m, cur := none } }
          | some fr =>
            if (s.req m).flushreq = none then   -- move them to the next request
              some { s with chain := chain', unl := it.rid :: s.unl, req := upd s.req m { s.req m with flushreq := some fr },
                            insts := setInst s.insts i { it with pc := .next, nxt := some m, cur := none } }
            else
              -- `nextreq = req.flushreq`: the code restarts the flush request instead of the neighbour
              some { s with chain := chain', unl := it.rid :: s.unl,
                            insts := setInst s.insts i { it with pc := .next, nxt := some fr, cur := none } }
      else none
    | none => none
  | .post i =>
    match s.insts[i]? with
    | some it => if it.pc = .post then some { s with insts := setInst s.insts i { it with pc := .queue } } else none
    | none => none
  | .queue i =>
    match s.insts[i]? with
    | some it =>
      if it.pc = .queue then
        if it.oldFl || s.closed then some { s with insts := setInst s.insts i { it with pc := .unlink } }
        else if s.reqout.length ≤ s.cap then
          some { s with reqout := s.reqout ++ [it.rid], insts := setInst s.insts i { it with pc := .unlink } }
        else none
      else none
    | none => none
  | .next i =>
    match s.insts[i]? with
    | some it =>
      if it.pc = .next then
        match it.nxt with
        | none => some { s with insts := setInst s.insts i { it with pc := .flushes } }
        | some m => some { s with req := upd s.req m { s.req m with wpc := .start },
                                  insts := setInst s.insts i { it with pc := .flushes } }
      else none
    | none => none
  | .flushes i =>
    -- for freq := flushreqs; freq != nil; freq = freq.flushreq { freq.Respond() }
    match s.insts[i]? with
    | some it =>
      if it.pc = .flushes then
        match it.cur with
        | none => some { s with insts := setInst s.insts i { it with pc := .done } }
        | some f =>
          if it.sp then some { s with insts := setInst s.insts i { it with cur := (s.req f).flushreq, sp := false } }
          else some { s with insts := setInst (s.insts ++ [{ rid := f }]) i { it with sp := true } }
      else none
    | none => none
  | .send =>
    match s.reqout with
    | [] => none
    | r :: rest => if s.closed then none else some { s with reqout := rest, wire := s.wire ++ [r] }
  | .close => if s.closed then none else some { s with closed := true }

/-- Schedules of an ordinary client's session, for the ordering theorems: no Tflush is aimed at
    another Tflush, a request that leaves the table with flushes waiting on it has no successor
    under its tag (the flushes are not handed over), and the request started by `next` was
    waiting in the queue of its tag. -/
def LS.tame (s : LS) : Ev → Bool
  | .flushLookup f =>
    match (s.req f).oldtag with
    | none => true
    | some ot =>
      match lookupTarget s.chain f ot with
      | none => true
      | some t => (s.req t).oldtag == none
  | .unlink i =>
    match s.insts[i]? with
    | some it => ((s.req it.rid).prev == none || (s.req it.rid).flushreq == none) &&
        olderOf (s.chain (s.req it.rid).tag) it.rid == none
    | none => true
  | .next i =>
    match s.insts[i]? with
    | some it =>
      match it.nxt with
      | some m => (s.req m).wpc == .queued
      | none => true
    | none => true
  | _ => true

def LS.runT (s : LS) : List Ev → Option LS
  | [] => some s
  | e :: es => if s.tame e then (s.step e).bind (fun s' => s'.runT es) else none

/-- Schedules of a session without Tflush (and in which the implementation does not cancel on
    its own): the setting of the shared-tag FIFO theorem. -/
def LS.plain (s : LS) : Ev → Bool
  | .recv _ (some _) => false
  | .implFlush _ => false
  | e => s.tame e

def LS.runP (s : LS) : List Ev → Option LS
  | [] => some s
  | e :: es => if s.plain e then (s.step e).bind (fun s' => s'.runP es) else none

def LS.run (s : LS) : List Ev → Option LS
  | [] => some s
  | e :: es => (s.step e).bind (fun s' => s'.run es)

def LS.init (cap : Nat) : LS := { cap := cap }

end G9.Life
