/-
  G9.ReqList — the client's pending list as the code keeps it: a doubly linked list threaded
  through the `Req` objects (`next`, `prev`) with `clnt.reqfirst` / `clnt.reqlast`
  (clnt_clnt.go: `Rpcnb` appends, `recv` unlinks the request a reply answers, `ReqFree` clears
  the links of a request before it is recycled, the error fan-out walks `next`).
  G9.Clnt speaks of this list as a `List`; Props/C09 proves that the pointer operations
  implement exactly that list (refinement), which is what lets a recycled `Req` be appended
  again.
-/
namespace G9.ReqList

def upd (f : Nat → Option Nat) (k : Nat) (v : Option Nat) : Nat → Option Nat := fun j => if j = k then v else f j

@[simp] theorem upd_same (f : Nat → Option Nat) (k : Nat) (v : Option Nat) : upd f k v k = v := by simp [upd]
@[simp] theorem upd_other (f : Nat → Option Nat) (k j : Nat) (v : Option Nat) (h : j ≠ k) : upd f k v j = f j := by simp [upd, h]

structure RL where
  next : Nat → Option Nat := fun _ => none     -- r.next
  prev : Nat → Option Nat := fun _ => none     -- r.prev
  first : Option Nat := none                   -- clnt.reqfirst
  last : Option Nat := none                    -- clnt.reqlast

/-- Rpcnb, under the client lock:
    `if reqlast != nil { reqlast.next = r } else { reqfirst = r }; r.prev = reqlast; reqlast = r`
    (r.next is left as it is) -/
def RL.append (s : RL) (r : Nat) : RL :=
  match s.last with
  | some l => { s with next := upd s.next l (some r), prev := upd s.prev r (some l), last := some r }
  | none => { s with first := some r, prev := upd s.prev r none, last := some r }

/-- recv, under the client lock:
    `if r.prev != nil { r.prev.next = r.next } else { reqfirst = r.next }`
    `if r.next != nil { r.next.prev = r.prev } else { reqlast = r.prev }` -/
def RL.unlink (s : RL) (r : Nat) : RL :=
  let n := s.next r
  let p := s.prev r
  let s1 : RL := match p with
    | some p' => { s with next := upd s.next p' n }
    | none => { s with first := n }
  match n with
  | some n' => { s1 with prev := upd s1.prev n' p }
  | none => { s1 with last := p }

/-- ReqFree: `req.next = nil; req.prev = nil` -/
def RL.free (s : RL) (r : Nat) : RL := { s with next := upd s.next r none, prev := upd s.prev r none }

/-- the walk of the error fan-out (and of the tag search in recv): follow `next` from `from`,
    at most `fuel` steps -/
def RL.walk (s : RL) : Nat → Option Nat → List Nat
  | 0, _ => []
  | _ + 1, none => []
  | fuel + 1, some a => a :: s.walk fuel (s.next a)

end G9.ReqList
