/-
  G9.Prelude — bytes, the three-valued result (ok | err | panic), little-endian
  integers.  Core Lean only.
-/
namespace G9

abbrev Bytes := List UInt8

/-- Outcome of a model function that mirrors Go code: a value, a returned Go `error`
    (classified into a small enum `ε`), or a run-time trap (index/slice out of range,
    nil dereference).  "Never panics" is a theorem, not an artefact of totalisation. -/
inductive Res (ε α : Type) where
  | ok (a : α)
  | err (e : ε)
  | panic
  deriving Repr, DecidableEq

namespace Res
variable {ε α β : Type}

@[inline] def bind (x : Res ε α) (f : α → Res ε β) : Res ε β :=
  match x with
  | ok a => f a
  | err e => err e
  | panic => panic

instance : Monad (Res ε) where
  pure := ok
  bind := bind

@[simp] theorem ok_bind (a : α) (f : α → Res ε β) : (ok a : Res ε α) >>= f = f a := rfl
@[simp] theorem err_bind (e : ε) (f : α → Res ε β) : (err e : Res ε α) >>= f = err e := rfl
@[simp] theorem panic_bind (f : α → Res ε β) : (panic : Res ε α) >>= f = panic := rfl
@[simp] theorem pure_eq (a : α) : (pure a : Res ε α) = ok a := rfl

def isPanic : Res ε α → Bool
  | panic => true
  | _ => false

theorem bind_ne_panic {x : Res ε α} {f : α → Res ε β}
    (hx : x ≠ panic) (hf : ∀ a, x = ok a → f a ≠ panic) : (x >>= f) ≠ panic := by
  cases x with
  | ok a => exact hf a rfl
  | err e => intro h; cases h
  | panic => exact absurd rfl hx

end Res

/-! ### little-endian integers -/

def p8 (v : UInt8) : Bytes := [v]

def p16 (v : UInt16) : Bytes :=
  [UInt8.ofNat (v.toNat % 256), UInt8.ofNat (v.toNat / 256 % 256)]

def p32 (v : UInt32) : Bytes :=
  [UInt8.ofNat (v.toNat % 256), UInt8.ofNat (v.toNat / 256 % 256),
   UInt8.ofNat (v.toNat / 65536 % 256), UInt8.ofNat (v.toNat / 16777216 % 256)]

def p64 (v : UInt64) : Bytes :=
  [UInt8.ofNat (v.toNat % 256), UInt8.ofNat (v.toNat / 256 % 256),
   UInt8.ofNat (v.toNat / 65536 % 256), UInt8.ofNat (v.toNat / 16777216 % 256),
   UInt8.ofNat (v.toNat / 4294967296 % 256), UInt8.ofNat (v.toNat / 1099511627776 % 256),
   UInt8.ofNat (v.toNat / 281474976710656 % 256), UInt8.ofNat (v.toNat / 72057594037927936 % 256)]

def le16 (a b : UInt8) : UInt16 := UInt16.ofNat (a.toNat + 256 * b.toNat)

def le32 (a b c d : UInt8) : UInt32 :=
  UInt32.ofNat (a.toNat + 256 * b.toNat + 65536 * c.toNat + 16777216 * d.toNat)

def le64 (a b c d e f g h : UInt8) : UInt64 :=
  UInt64.ofNat (a.toNat + 256 * b.toNat + 65536 * c.toNat + 16777216 * d.toNat
    + 4294967296 * e.toNat + 1099511627776 * f.toNat + 281474976710656 * g.toNat
    + 72057594037927936 * h.toNat)

@[simp] theorem p8_length (v : UInt8) : (p8 v).length = 1 := rfl
@[simp] theorem p16_length (v : UInt16) : (p16 v).length = 2 := rfl
@[simp] theorem p32_length (v : UInt32) : (p32 v).length = 4 := rfl
@[simp] theorem p64_length (v : UInt64) : (p64 v).length = 8 := rfl

theorem le16_p16 (v : UInt16) :
    le16 (UInt8.ofNat (v.toNat % 256)) (UInt8.ofNat (v.toNat / 256 % 256)) = v := by
  have := v.toNat_lt
  apply UInt16.toNat_inj.mp
  simp [le16, UInt8.toNat_ofNat', UInt16.toNat_ofNat']
  omega

theorem le32_p32 (v : UInt32) :
    le32 (UInt8.ofNat (v.toNat % 256)) (UInt8.ofNat (v.toNat / 256 % 256))
      (UInt8.ofNat (v.toNat / 65536 % 256)) (UInt8.ofNat (v.toNat / 16777216 % 256)) = v := by
  have := v.toNat_lt
  apply UInt32.toNat_inj.mp
  simp [le32, UInt8.toNat_ofNat', UInt32.toNat_ofNat']
  omega

theorem le64_p64 (v : UInt64) :
    le64 (UInt8.ofNat (v.toNat % 256)) (UInt8.ofNat (v.toNat / 256 % 256))
      (UInt8.ofNat (v.toNat / 65536 % 256)) (UInt8.ofNat (v.toNat / 16777216 % 256))
      (UInt8.ofNat (v.toNat / 4294967296 % 256)) (UInt8.ofNat (v.toNat / 1099511627776 % 256))
      (UInt8.ofNat (v.toNat / 281474976710656 % 256))
      (UInt8.ofNat (v.toNat / 72057594037927936 % 256)) = v := by
  have := v.toNat_lt
  apply UInt64.toNat_inj.mp
  simp [le64, UInt8.toNat_ofNat', UInt64.toNat_ofNat']
  omega

/-- and the other direction: the bytes are determined by the value. -/
theorem p16_le16 (a b : UInt8) : p16 (le16 a b) = [a, b] := by
  have ha := a.toNat_lt; have hb := b.toNat_lt
  simp only [p16, le16, UInt16.toNat_ofNat']
  have h1 : (a.toNat + 256 * b.toNat) % 2 ^ 16 % 256 = a.toNat := by omega
  have h2 : (a.toNat + 256 * b.toNat) % 2 ^ 16 / 256 % 256 = b.toNat := by omega
  simp [h1, h2]

theorem p32_le32 (a b c d : UInt8) : p32 (le32 a b c d) = [a, b, c, d] := by
  have ha := a.toNat_lt; have hb := b.toNat_lt; have hc := c.toNat_lt; have hd := d.toNat_lt
  simp only [p32, le32, UInt32.toNat_ofNat']
  have h1 : (a.toNat + 256 * b.toNat + 65536 * c.toNat + 16777216 * d.toNat) % 2 ^ 32 % 256
      = a.toNat := by omega
  have h2 : (a.toNat + 256 * b.toNat + 65536 * c.toNat + 16777216 * d.toNat) % 2 ^ 32 / 256 % 256
      = b.toNat := by omega
  have h3 : (a.toNat + 256 * b.toNat + 65536 * c.toNat + 16777216 * d.toNat) % 2 ^ 32 / 65536 % 256
      = c.toNat := by omega
  have h4 : (a.toNat + 256 * b.toNat + 65536 * c.toNat + 16777216 * d.toNat) % 2 ^ 32 / 16777216 % 256
      = d.toNat := by omega
  simp [h1, h2, h3, h4]

/-! ### hex, for the line protocol -/

def hexDigit (n : Nat) : Char :=
  if n < 10 then Char.ofNat (48 + n) else Char.ofNat (87 + n)

def toHex (bs : Bytes) : String :=
  String.ofList (bs.foldr (fun b acc => hexDigit (b.toNat / 16) :: hexDigit (b.toNat % 16) :: acc) [])

def hexVal (c : Char) : Option Nat :=
  if '0' ≤ c ∧ c ≤ '9' then some (c.toNat - 48)
  else if 'a' ≤ c ∧ c ≤ 'f' then some (c.toNat - 87)
  else if 'A' ≤ c ∧ c ≤ 'F' then some (c.toNat - 55)
  else none

def ofHexChars : List Char → Option Bytes
  | [] => some []
  | [_] => none
  | a :: b :: rest => do
    let x ← hexVal a
    let y ← hexVal b
    let r ← ofHexChars rest
    pure (UInt8.ofNat (16 * x + y) :: r)

/-- `-` denotes the empty byte string in the line protocol. -/
def ofHex (s : String) : Option Bytes :=
  if s == "-" then some [] else ofHexChars s.toList

def hexOr (bs : Bytes) : String := if bs.isEmpty then "-" else toHex bs

end G9
