/-
  G9.FrameV — the server's receive loop when requests change the connection's parameters.
  `Conn.recv` (srv_conn.go) hands a Tversion to `Srv.version` *inside* its inner loop, before it
  looks at the next frame: the msize gate and the dialect `Unpack` is called with are those the
  frames before left behind — however many frames one `Read` delivered.  Same loop as
  G9.Frame.extract, with the configuration threaded through (`upd`: what an accepted frame does
  to it).
-/
import G9.Frame
namespace G9.Frame

/-- the inner loop; returns what was handed out, what is left unconsumed, whether the connection
    was ended, and the configuration in force afterwards -/
def extractV (upd : Cfg → Bytes → Cfg) : Nat → Cfg → Bytes → List Out × Bytes × Bool × Cfg
  | 0, cfg, u => ([], u, false, cfg)
  | fuel + 1, cfg, u =>
    if u.length ≤ 4 then ([], u, false, cfg)
    else
      let sz := (Go.dec32 (u.take 4)).toNat
      if cfg.gate && sz > cfg.msize then ([.drop], [], true, cfg)
      else if u.length < sz then ([], u, false, cfg)
      else if !accepts cfg.dotu (u.take sz) then ([.drop], [], true, cfg)
      else
        let (outs, rest, dead, cfg') := extractV upd fuel (upd cfg (u.take sz)) (u.drop sz)
        (.frame (u.take sz) :: outs, rest, dead, cfg')

structure VS where
  cfg : Cfg
  unread : Bytes := []
  dead : Bool := false

def feedV (upd : Cfg → Bytes → Cfg) (s : VS) (chunk : Bytes) : VS × List Out :=
  if s.dead then (s, [])
  else
    let u := s.unread ++ chunk
    let (outs, rest, dead, cfg') := extractV upd (u.length + 1) s.cfg u
    ({ cfg := cfg', unread := rest, dead := dead }, outs)

def feedAllV (upd : Cfg → Bytes → Cfg) (s : VS) : List Bytes → VS × List Out
  | [] => (s, [])
  | ch :: chs =>
    let (s1, o1) := feedV upd s ch
    let (s2, o2) := feedAllV upd s1 chs
    (s2, o1 ++ o2)

/-- `Srv.version` as the receive loop sees it: a Tversion whose msize can carry an I/O header
    lowers the connection's msize (never raises it) and sets the dialect to 9P2000.u iff the
    client asked for exactly that and the server speaks it; everything else leaves both alone. -/
def afterFrame (srvDotu : Bool) (cfg : Cfg) (fr : Bytes) : Cfg :=
  match Go.unpack cfg.dotu fr with
  | .ok (_, .tversion m v, _) =>
    if m.toNat < 24 then cfg
    else { cfg with msize := if m.toNat < cfg.msize then m.toNat else cfg.msize,
                    dotu := (v == "9P2000.u".toUTF8.toList) && srvDotu }
  | _ => cfg

end G9.Frame
