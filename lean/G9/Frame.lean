/-
  G9.Frame — M2: the receive loops (`Conn.recv` in srv_conn.go, `Clnt.recv` in clnt_clnt.go).

  Two views of the same loop:
  * data level — what is delivered: the bytes received and not yet consumed (`buf[0:pos]`),
    cut into frames at the size prefixes, each accepted or ending the connection;
  * buffer level — where it lives: the backing array, the offset of `buf` in it (`buf =
    buf[fcsize:]` advances it), `pos`, reallocation; every frame handed out aliases the
    array, and every `Read` writes at `buf[pos:]`.
-/
import G9.Wire.Go
namespace G9.Frame

/-! ### data level -/

inductive Out where
  | frame (bs : Bytes)        -- a complete frame handed to `Unpack` and accepted
  | drop                      -- the connection is ended (oversize, undersize or undecodable frame)
  deriving Repr, DecidableEq

structure Cfg where
  msize : Nat
  dotu : Bool
  gate : Bool        -- the loop refuses an announced size > msize before waiting for the body

/-- does `Unpack` accept these bytes (the frame is its first `size` bytes)? -/
def accepts (dotu : Bool) (bs : Bytes) : Bool :=
  match Go.unpack dotu bs with
  | .ok _ => true
  | _ => false

/-- the inner `for pos > 4 { … }` loop over the unconsumed bytes; `fuel` bounds the number
    of iterations (every accepted frame consumes at least 7 bytes). Returns what was handed
    out, what is left unconsumed, and whether the connection was ended. -/
def extract (cfg : Cfg) : Nat → Bytes → List Out × Bytes × Bool
  | 0, u => ([], u, false)
  | fuel + 1, u =>
    if u.length ≤ 4 then ([], u, false)
    else
      let sz := (Go.dec32 (u.take 4)).toNat
      if cfg.gate && sz > cfg.msize then ([.drop], [], true)
      else if u.length < sz then ([], u, false)           -- wait for the rest of the frame
      else if !accepts cfg.dotu (u.take sz) then ([.drop], [], true)
      else
        let (outs, rest, dead) := extract cfg fuel (u.drop sz)
        (.frame (u.take sz) :: outs, rest, dead)

structure RS where
  unread : Bytes := []
  dead : Bool := false
  deriving Repr

/-- one `Read` returning `chunk` (non-empty), followed by the inner loop -/
def feed (cfg : Cfg) (s : RS) (chunk : Bytes) : RS × List Out :=
  if s.dead then (s, [])
  else
    let u := s.unread ++ chunk
    let (outs, rest, dead) := extract cfg (u.length + 1) u
    ({ unread := rest, dead := dead }, outs)

def feedAll (cfg : Cfg) (s : RS) : List Bytes → RS × List Out
  | [] => (s, [])
  | ch :: chs =>
    let (s1, o1) := feed cfg s ch
    let (s2, o2) := feedAll cfg s1 chs
    (s2, o1 ++ o2)

/-! ### buffer level -/

structure Buf where
  arr : Nat            -- identity of the backing array
  base : Nat           -- offset of buf[0] in it
  cap : Nat            -- len of the array
  pos : Nat            -- bytes of buf in use
  deriving Repr

/-- `len(buf)` -/
def Buf.len (b : Buf) : Nat := b.cap - b.base

inductive BEv where
  | write (arr off len : Nat)     -- a Read stored `len` bytes at `off` of array `arr`
  | hand (arr off len : Nat)      -- a frame aliasing [off, off+len) of `arr` was handed out
  deriving Repr, DecidableEq

/-- fresh array of `8·msize` bytes, the unconsumed bytes copied to its start -/
def Buf.realloc (b : Buf) (msize : Nat) : Buf :=
  { arr := b.arr + 1, base := 0, cap := 8 * msize, pos := b.pos }

/-- top of the outer loop: `if len(buf) < msize { realloc }` -/
def Buf.top (b : Buf) (msize : Nat) : Buf := if b.len < msize then b.realloc msize else b

/-- `n, _ := Read(buf[pos:])` with 1 ≤ n ≤ len(buf) − pos -/
def Buf.read (b : Buf) (n : Nat) : Buf × BEv := ({ b with pos := b.pos + n }, .write b.arr (b.base + b.pos) n)

/-- a complete frame of `sz` bytes is handed out and `buf = buf[sz:]` -/
def Buf.consume (b : Buf) (sz : Nat) : Buf × BEv :=
  ({ b with base := b.base + sz, pos := b.pos - sz }, .hand b.arr b.base sz)

/-- a partial frame that does not fit: `if len(buf) < sz { realloc }` -/
def Buf.wait (b : Buf) (msize sz : Nat) : Buf := if b.len < sz then b.realloc msize else b

end G9.Frame

namespace G9.Frame

/-! ### the loop's control flow over the buffer (for the aliasing and bounds theorems) -/

/-- where the loop stands: about to `Read` (with the size of a pending partial frame, 0 if
    none), or inside the inner loop with `pos` unconsumed bytes -/
inductive Mode where
  | outer (pending : Nat)
  | inner
  deriving Repr, DecidableEq

structure LS where
  b : Buf
  mode : Mode
  log : List BEv := []       -- newest first
  deriving Repr

inductive Step where
  | read (n : Nat)           -- top-of-loop check, then Read returns n bytes
  | take (sz : Nat)          -- a complete, accepted frame of sz bytes at the head
  | park (sz : Nat)          -- a partial frame of announced size sz: `break` (realloc if it cannot fit)
  | idle                     -- `pos <= 4`: the inner loop ends
  deriving Repr

/-- the loop's own guards; `none` = this step is not what the code does in this state -/
def LS.step (msize : Nat) (s : LS) : Step → Option LS
  | .read n =>
    match s.mode with
    | .outer _ =>
      let b := s.b.top msize
      if 1 ≤ n ∧ n ≤ b.len - b.pos then
        let (b', ev) := b.read n
        some { b := b', mode := .inner, log := ev :: s.log }
      else none
    | .inner => none
  | .take sz =>
    match s.mode with
    | .inner =>
      if 4 < s.b.pos ∧ 7 ≤ sz ∧ sz ≤ msize ∧ sz ≤ s.b.pos then
        let (b', ev) := s.b.consume sz
        some { b := b', mode := .inner, log := ev :: s.log }
      else none
    | .outer _ => none
  | .park sz =>
    match s.mode with
    | .inner =>
      if 4 < s.b.pos ∧ s.b.pos < sz ∧ sz ≤ msize then
        some { s with b := s.b.wait msize sz, mode := .outer sz }
      else none
    | .outer _ => none
  | .idle =>
    match s.mode with
    | .inner => if s.b.pos ≤ 4 then some { s with mode := .outer 0 } else none
    | .outer _ => none

def LS.init (msize : Nat) : LS := { b := { arr := 0, base := 0, cap := 8 * msize, pos := 0 }, mode := .outer 0 }

def LS.run (msize : Nat) (s : LS) : List Step → Option LS
  | [] => some s
  | st :: rest => (s.step msize st).bind (fun s' => s'.run msize rest)

end G9.Frame
