/-
  G9.Locks — C19: the lock discipline expected of the library, as data, and the decision
  procedure that checks the regenerated access facts (G9.GeneratedLocks, printed by
  extract/lockfacts.go from /repo's syntax tree on every run) against it.

  `policy` says which mutex guards which field. `own T`: the mutex embedded in the very
  object the field is read from (`x.Lock(); … x.f …`). `via T`: a mutex of type T held at
  that point (the linked lists through requests are guarded by their connection's /
  client's lock, not by the request's own). Fields not listed are not shared between
  goroutines while they are accessed — that is C19's premise (concurrent requests operate
  on different fids; a request is owned by one goroutine at a time) — or are written only
  before the goroutines that read them are started.

  `exempt` lists the accesses of guarded fields made without the guard, each with the reason
  why it is ordered with the conflicting accesses anyway.
-/
import G9.GeneratedLocks
namespace G9.Locks
open G9.GeneratedLocks

inductive Guard where
  | own (typ : String)
  | via (typ : String)
  deriving Repr

def policy : List (String × Guard) := [
  -- server connection: fid table, request table, statistics
  ("Conn.fidpool", .own "Conn"), ("Conn.reqs", .own "Conn"), ("Conn.nreqs", .own "Conn"),
  ("Conn.npend", .own "Conn"), ("Conn.maxpend", .own "Conn"), ("Conn.tsz", .own "Conn"), ("Conn.rsz", .own "Conn"),
  -- request status bits; the per-tag list and the flush chain belong to the connection
  ("SrvReq.status", .own "SrvReq"),
  ("SrvReq.next", .via "Conn"), ("SrvReq.prev", .via "Conn"), ("SrvReq.flushreq", .via "Conn"),
  -- fid reference count
  ("SrvFid.refcount", .own "SrvFid"), ("SrvFid.destroyed", .own "SrvFid"), ("SrvFid.pending", .own "SrvFid"),
  ("SrvFid.kept", .own "SrvFid"), ("SrvFid.dead", .own "SrvFid"),
  -- server: connection set
  ("Srv.conns", .own "Srv"),
  -- client: pending list and sticky error
  ("Clnt.reqfirst", .own "Clnt"), ("Clnt.reqlast", .own "Clnt"), ("Clnt.err", .own "Clnt"),
  ("Req.next", .via "Clnt"), ("Req.prev", .via "Clnt"),
  -- list of clients (statistics)
  ("ClntList.clntList", .own "ClntList"), ("ClntList.clntLast", .own "ClntList"),
  ("Clnt.next", .via "ClntList"), ("Clnt.prev", .via "ClntList"),
  -- user/group cache
  ("osUsers.users", .own "osUsers"), ("osUsers.groups", .own "osUsers")
]

/-- (function, field, why the access is ordered without the guard) -/
def exempt : List (String × String × String) := [
  ("Srv.NewConn", "Conn.fidpool", "initialisation: the connection is not yet visible to any other goroutine"),
  ("Srv.NewConn", "Conn.reqs", "initialisation: the connection is not yet visible to any other goroutine"),
  ("initOsusers", "osUsers.users", "package initialisation, before any goroutine"),
  ("initOsusers", "osUsers.groups", "package initialisation, before any goroutine"),
  ("Conn.FidNew", "SrvFid.refcount", "the fid was allocated two lines above and is published by the table insert that follows, under the connection lock"),
  ("Conn.FidNew", "SrvFid.pending", "as refcount: set before the fid is published"),
  ("Clnt.Rpcnb", "Clnt.err", "read again after the unlock of a value seen non-nil under the lock; err is only ever set while nil (write-once)"),
  ("Clnt.recv", "Req.next", "error fan-out over the list detached from the client under the lock: private to the receiver"),
  ("Clnt.ReqFree", "Req.next", "the request has left the pending list: private to its caller"),
  ("Clnt.ReqFree", "Req.prev", "the request has left the pending list: private to its caller"),
  ("SrvReq.Respond", "SrvReq.flushreq", "loop over the chain captured under the connection lock; each element was unlinked under that lock by the nested Respond just before its flushreq is read")
]

def guardOf (f : String) : Option Guard := (policy.find? (·.1 == f)).map (·.2)

def isExempt (a : Access) : Bool := exempt.any (fun e => e.1 == a.fn && e.2.1 == a.field)

def okAccess (a : Access) : Bool :=
  match guardOf a.field with
  | none => true
  | some (.own t) => a.held.any (fun h => h.typ == t && h.base == a.base) || isExempt a
  | some (.via t) => a.held.any (fun h => h.typ == t) || isExempt a

def allAccesses : List Access := files.flatMap (·.2)

def violations : List Access := allAccesses.filter (fun a => !okAccess a)

/-- every guarded field is still there (a renamed field would silently drop out of the check) -/
def policyCovered : Bool := policy.all (fun p => allAccesses.any (fun a => a.field == p.1 && a.write))

/-- every exemption still matches an access (stale exemptions are reported) -/
def exemptUsed : Bool := exempt.all (fun e => allAccesses.any (fun a => a.fn == e.1 && a.field == e.2.1 && !(match guardOf a.field with
  | some (.own t) => a.held.any (fun h => h.typ == t && h.base == a.base)
  | some (.via t) => a.held.any (fun h => h.typ == t)
  | none => true)))

end G9.Locks
