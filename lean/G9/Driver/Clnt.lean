/-
  G9.Driver.Clnt — line-protocol command of the client model (C09, C10):
    clntrun <pool> <ev> <ev> …   events: a<i> alloc, q<i> enqueue, d<i>:<p> deliver a frame carrying
                                 caller i's tag with payload p, u<t> deliver a frame with unknown tag t,
                                 F fail, o one fan-out iteration, r<i> return
  answers the accounting after the run, or where the model refused an event.
-/
import G9.Clnt
import G9.Driver.Text
namespace G9.Driver
open G9 G9.Clnt G9.Text

def clntEv (s : CS) (e : String) : Option Ev :=
  let cs := e.toList
  let rest := String.ofList (cs.drop 1)
  match cs.headD ' ' with
  | 'a' => rest.toNat?.map .alloc
  | 'q' => rest.toNat?.map .enqueue
  | 'r' => rest.toNat?.map .ret
  | 'F' => some .fail
  | 'o' => some .fanout
  | 'u' => rest.toNat?.map (fun t => .deliver t 0)
  | 'd' =>
    match rest.splitOn ":" with
    | [i, p] => do
      let i ← i.toNat?
      let p ← p.toNat?
      let t ← tagOf s i
      some (.deliver t p)
    | _ => none
  | _ => none

def clnt (cmd : String) (args : List String) : Option String :=
  match cmd, args with
  | "clntrun", n :: evs => do
    let n ← n.toNat?
    let rec go (s : CS) (k : Nat) : List String → String
      | [] => s!"free={s.free.length + s.cache.length} live={s.live.length} pend={s.pend.length} woken={s.woken.length} refused={s.refused.length} err={if s.err then 1 else 0}"
      | e :: rest =>
        match clntEv s e with
        | none => s!"bad-event {k} {e}"
        | some ev =>
          match s.step ev with
          | none => s!"blocked {k} {e}"
          | some s' => go s' (k + 1) rest
    some (go (CS.init n) 0 evs)
  | "clntjudge", _ => some "*"
  | _, _ => none

end G9.Driver
