/-
  G9.Driver.Frame — line-protocol command of the receive-loop model (C13):
    frames <msize> <dotu> <gate> <chunk> <chunk> …     (hex chunks, in arrival order)
    framesv <server dotu> <msize> <dotu> <gate> <chunk> …   (the same, Tversions in the stream take effect)
  answers  F<len> … [D] R<unconsumed>
-/
import G9.Frame
import G9.FrameV
import G9.Driver.Text
namespace G9.Driver
open G9 G9.Frame G9.Text

def showOut : Out → String
  | .frame bs => s!"F{bs.length}"
  | .drop => "D"

def frames (cmd : String) (args : List String) : Option String :=
  match cmd, args with
  | "frames", ms :: du :: gate :: chunks => do
    let cfg : Cfg := { msize := ← nat? ms, dotu := ← bool? du, gate := ← bool? gate }
    let cs ← chunks.mapM bytes?
    let (s, outs) := feedAll cfg {} cs
    let nf := (outs.filter (fun o => match o with | .frame _ => true | .drop => false)).length
    -- canonical form shared with the harness: frames executed, connection ended?
    some s!"frames={nf} dropped={if s.dead then 1 else 0}"
  | "framesv", sd :: ms :: du :: gate :: chunks => do
    -- the body may renegotiate: msize and dialect are threaded through the frames (G9.FrameV)
    let sd ← bool? sd
    let cfg : Cfg := { msize := ← nat? ms, dotu := ← bool? du, gate := ← bool? gate }
    let cs ← chunks.mapM bytes?
    let (s, outs) := feedAllV (afterFrame sd) { cfg := cfg } cs
    let nf := (outs.filter (fun o => match o with | .frame _ => true | .drop => false)).length
    some s!"frames={nf} dropped={if s.dead then 1 else 0}"
  | "cseg", _ => some "*"      -- client-side runs are judged by the harness oracle only
  | _, _ => none

end G9.Driver
