/-
  G9.Driver.Logger — line-protocol commands of the logger model (C20).
    logseq <N> <op,op,…>      ops: L<owner>.<type> | F<owner>.<type> (filter after the queue drained)
                              | f<owner>.<type>=<id+id+…> (filter without waiting; result observed)
    logconc <N> <G> <K> <ids> G producers × K entries each (id = p*1000000+i), then drained Filter(nil,0)
-/
import G9.Logger
import G9.Driver.Text
namespace G9.Driver
open G9 G9.Logger G9.Text

def owner? (s : String) : Option (Option Nat) := if s == "n" then some none else (s.toNat?).map some

def ids? (s : String) : Option (List Nat) :=
  if s == "-" then some [] else (s.splitOn "+").mapM (·.toNat?)
def showIds (l : List Nat) : String := if l.isEmpty then "-" else "+".intercalate (l.map toString)

structure LS where
  n : Nat
  enq : List Entry := []        -- everything handed to Log so far, in order
  minProc : Nat := 0            -- entries known to be stored
  outs : List String := []
  verdict : Option String := none

def specFilter (n : Nat) (hist : List Entry) (fo : Option Nat) (ft : Nat) : List Nat :=
  ((lastN n hist).filter (sel fo ft)).map (·.id)

def modelFilter (n : Nat) (hist : List Entry) (fo : Option Nat) (ft : Nat) : String :=
  match (hist.foldl Ring.log (Ring.new n)).filter fo ft with
  | some l => showIds (l.map (·.id))
  | none => "nonterminating"

def logOp (st : LS) (op : String) : Option LS := do
  let cs := op.toList
  let kind := cs.headD ' '
  let rest := String.ofList (cs.drop 1)
  let (ot, res) := match rest.splitOn "=" with
    | [a, b] => (a, some b)
    | _ => (rest, none)
  match ot.splitOn "." with
  | [o, t] =>
    let fo ← owner? o
    let ft ← t.toNat?
    if kind == 'L' then
      some { st with enq := st.enq ++ [{ id := st.enq.length, owner := fo, typ := ft }] }
    else if kind == 'F' || kind == 'C' then   -- 'C': concurrent callers on a logger at rest
      some { st with minProc := st.enq.length, outs := st.outs ++ [modelFilter st.n st.enq fo ft] }
    else if kind == 'f' then do
      let obs ← ids? (← res)
      let lo := max st.minProc (st.enq.length - qcap)
      let cands := (List.range (st.enq.length - lo + 1)).map (· + lo)
      match cands.find? (fun k => specFilter st.n (st.enq.take k) fo ft == obs) with
      | some k => some { st with minProc := k }
      | none => some { st with verdict := some s!"reject undrained filter after {st.enq.length} logs: {showIds obs} is not the window of any prefix of length {lo}..{st.enq.length}" }
    else none
  | _ => none

def logger (cmd : String) (args : List String) : Option String :=
  match cmd, args with
  | "logseq", [n, ops] => do
    let n ← n.toNat?
    if n == 0 then none
    let st ← (ops.splitOn ",").foldlM logOp ({ n := n } : LS)
    -- drained filters are compared exactly (model = the loop mirror; oracle = the specification)
    let model := if st.outs.isEmpty then "-" else ";".intercalate st.outs
    let verdict := st.verdict.getD "accept"
    some (model ++ " ## " ++ (if st.verdict.isSome then verdict else model))
  | "logconc", [n, g, k, ids] => do
    let n ← n.toNat?
    let g ← g.toNat?
    let k ← k.toNat?
    let obs ← ids? ids
    -- acceptor: |obs| = min n (g*k); per producer, its entries in obs are a suffix of 0..k-1 in order
    let okLen := obs.length == min n (g * k)
    let okProd := (List.range g).all fun p =>
      let mine := (obs.filter (fun id => id / 1000000 == p)).map (· % 1000000)
      mine == (List.range k).drop (k - mine.length)
    some ("* ## " ++ (if okLen && okProd then "accept" else "reject"))
  | _, _ => none

end G9.Driver
