/-
  G9.Driver.ClntIO — acceptor for the client's hand-off/shutdown schedule points (C10):
    clntio <obs> <obs> …
  logged by the harness in the order the real client passed them:
    E<i>   rpcnb.enqueued: call i is on the pending list and enters the select of Rpcnb
    T<i>   clnt.send.take: the writer goroutine took call i's request
    H<i>   rpcnb.handoff: call i left the select (its request was taken, or `closed` let it go)
    C      clnt.recv.closed: the receiver left its loop
    O      clnt.recv.fanout: the receiver is past the handshake with the writer
  Replayed on G9.ClntIO.HS.  What the code does not log is fired when the next observation needs
  it: `wrote`/`wfail` before the writer takes the next request or is stopped, `stop` before the
  fan-out or a caller's way out through `closed`.  A caller seen leaving the select before the
  writer logged its take is resolved by that take, or at the end as a `giveup`.
  Answer: `accept`, or `refused <k> <obs> <why>`.
-/
import G9.ClntIO
import G9.Driver.Text
namespace G9.Driver
open G9 G9.ClntIO G9.Text

structure IOAcc where
  s : HS := {}
  left : List Nat := []      -- callers seen leaving the select, not yet explained

def ioFire (s : HS) (e : ClntIO.Ev) : Except String HS :=
  match s.step e with
  | some s' => .ok s'
  | none => .error s!"model refuses {repr e}"

/-- the writer is back at its select -/
def ioWriterIdle (s : HS) : Except String HS :=
  match s.w with
  | .writing _ => ioFire s .wrote
  | _ => .ok s

/-- the handshake is over -/
def ioClosed (s : HS) : Except String HS := do
  if s.r == .closed then return s
  let s ← ioWriterIdle s
  ioFire s .stop

def ioObserve (a : IOAcc) (tok : String) : Except String IOAcc := do
  let cs := tok.toList
  let rest := String.ofList (cs.drop 1)
  match cs.headD ' ' with
  | 'E' =>
    let some i := rest.toNat? | .error "bad call"
    return { a with s := ← ioFire a.s (.enq i) }
  | 'T' =>
    let some i := rest.toNat? | .error "bad call"
    let s ← ioWriterIdle a.s
    return { s := ← ioFire s (.handoff i), left := a.left.erase i }
  | 'H' =>
    let some i := rest.toNat? | .error "bad call"
    if i ∈ a.s.taken then return a
    else if i ∈ a.s.handing then return { a with left := a.left ++ [i] }
    else .error "a call leaves the select it never entered"
  | 'C' => return { a with s := ← ioFire a.s .rfail }
  | 'O' => return { a with s := ← ioClosed a.s }
  | _ => .error "unknown observation"

def clntio (cmd : String) (args : List String) : Option String :=
  match cmd with
  | "clntio" =>
    let rec go (k : Nat) (a : IOAcc) : List String → String
      | [] =>
        -- callers that left the select and were never taken went out through `closed`
        match a.left.foldlM (fun (s : HS) i => do let s ← ioClosed s; ioFire s (.giveup i)) a.s with
        | .ok _ => "accept"
        | .error why => s!"refused end - {why}"
      | t :: ts =>
        match ioObserve a t with
        | .ok a' => go (k + 1) a' ts
        | .error why => s!"refused {k} {t} {why}"
    some ("* ## " ++ go 0 {} args)
  | _ => none

end G9.Driver
