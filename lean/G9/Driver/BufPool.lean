/-
  G9.Driver.BufPool — acceptor for the reply buffers the real server hands its requests (C06, C12):
    bufsess <obs> <obs> …
  one observation per request of one connection, made in the receive loop when the request has
  been given its reply Fcall and before it is executed:
    R:<len(req.Rc.Buf)>:<conn.Msize>:<m|->     m: the request is a Tversion with this msize
  The acceptor replays them on G9.BufPool.BS (whether the Fcall came from the pool cannot be seen
  from outside; by `taken_buffer_is_msize` the length is the connection's msize either way) and
  applies `version` after a Tversion.  Answer: `accept`, or `refused <k> <obs> <why>`.
-/
import G9.BufPool
import G9.Driver.Text
namespace G9.Driver
open G9 G9.BufPool G9.Text

def bufObserve (s : Option BS) (tok : String) : Except String BS :=
  match tok.splitOn ":" with
  | ["R", len, msize, v] => do
    let some len := len.toNat? | .error "bad length"
    let some msize := msize.toNat? | .error "bad msize"
    -- the first observation tells the server's msize
    let s := s.getD (BS.init msize)
    if msize != s.msize then .error s!"conn.Msize is {msize}, the model has {s.msize}"
    else if len != s.msize then .error s!"the reply buffer has {len} bytes, the model hands out {s.msize}"
    else if v == "-" then .ok s
    else
      let some m := v.toNat? | .error "bad Tversion msize"
      match s.step (.version m) with
      | some s' => .ok s'
      | none => .error "model refuses version"
  | _ => .error "unknown observation"

def bufsess (cmd : String) (args : List String) : Option String :=
  match cmd with
  | "bufsess" =>
    let rec go (k : Nat) (s : Option BS) : List String → String
      | [] => "accept"
      | t :: ts =>
        match bufObserve s t with
        | .ok s' => go (k + 1) (some s') ts
        | .error why => s!"refused {k} {t} {why}"
    some ("* ## " ++ go 0 none args)
  | _ => none

end G9.Driver
