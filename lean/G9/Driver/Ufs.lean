/-
  G9.Driver.Ufs — line-protocol commands of the Ufs logic model (C14–C18):
    dirwin <ends,…|~> <off> <cnt>        window of a directory read
    readn <filelen> <io> <off> <n>       length File.Readn returns
    uwalk <k> <n>                        Ufs.Walk of n names of which the first k exist
    omode <mode>                         omode2uflags
    clean <comp/comp/…>                  filepath.Clean of the absolute path /comp/comp/…
    createplan <dotu> <perm> <omode> <extInRoot> <extNumber> <extFid>
                                         the POSIX calls Ufs.Create makes (G9.UfsPlan)
    wstatplan <dotu> <mode> <uidnum> <gidnum> <hasUid> <hasGid> <hasName> <destInRoot> <length> <mtime> <atime> <lookupUid|-> <lookupGid|->
                                         the POSIX calls Ufs.Wstat makes
    npmode <perm> <dir><symlink><socket><pipe><device><setuid><setgid> <dotu>
                                         dir2Npmode and dir2QidType of a file with these mode bits
    ufsjudge …                           runs judged by the harness's OS oracle only
-/
import G9.UfsLogic
import G9.UfsPlan
import G9.UfsMeta
import G9.Driver.Text
namespace G9.Driver
open G9 G9.Ufs G9.Text

def showW : WRes → String
  | .ok c => s!"ok {c}"
  | .badOffset => "badOffset"
  | .tooSmall => "tooSmall"
  | .panic => "panic"

def showPOp : UfsPlan.POp → String
  | .mkdir m => s!"mkdir:{m}"
  | .symlink => "symlink"
  | .link => "link"
  | .openCreate o m => s!"creat:{o}:{m}"
  | .openPlain o => s!"open:{o}"
  | .chmod m => s!"chmod:{m}"
  | .chown u g => s!"chown:{u}:{g}"
  | .rename => "rename"
  | .truncate n => s!"truncate:{n}"
  | .chtimes a (some m) => s!"chtimes:{a}:{m}"
  | .chtimes a none => s!"chtimes:{a}:file"

def showPlan : UfsPlan.Plan → String
  | .refuse why => s!"refuse {why}"
  | .calls l => s!"calls {showList showPOp l}"

def bool? (s : String) : Option Bool := if s == "1" then some true else if s == "0" then some false else none
def optNatU? (s : String) : Option (Option Nat) := if s == "-" then some none else (nat? s).map some

/-- [0,1,2,5,6] ↦ "0-2,5-6" -/
def showRuns (l : List Nat) : String :=
  let rec go : List Nat → Option (Nat × Nat) → List String → List String
    | [], none, acc => acc
    | [], some (a, b), acc => acc ++ [s!"{a}-{b}"]
    | x :: xs, none, acc => go xs (some (x, x)) acc
    | x :: xs, some (a, b), acc => if x == b + 1 then go xs (some (a, x)) acc else go xs (some (x, x)) (acc ++ [s!"{a}-{b}"])
  let r := go l none []
  if r.isEmpty then "-" else ",".intercalate r

def ufs (cmd : String) (args : List String) : Option String :=
  match cmd, args with
  | "npmode", [perm, flags, dotu] => do
    let perm ← nat? perm
    let dotu ← bool? dotu
    match flags.toList.map (· == '1') with
    | [d, sl, so, pi, de, su, sg] =>
      let m : UfsMeta.FMode := { perm := perm, dir := d, symlink := sl, socket := so, pipe := pi, device := de, setuid := su, setgid := sg }
      some s!"{UfsMeta.npmode m dotu} {UfsMeta.qidType m}"
    | _ => none
  | "createplan", [dotu, perm, omode, inr, num, fid] => do
    some (showPlan (UfsPlan.createPlan (← bool? dotu) (← nat? perm) (← nat? omode) (← bool? inr) (← bool? num) (← bool? fid)))
  | "wstatplan", [dotu, mode, un, gn, hu, hg, hn, dr, len, mt, atm, lu, lg] => do
    let mode ← nat? mode
    let un ← nat? un
    let gn ← nat? gn
    let hu ← bool? hu
    let hg ← bool? hg
    let hn ← bool? hn
    let dr ← bool? dr
    let len ← nat? len
    let mt ← nat? mt
    let atm ← nat? atm
    let w : UfsPlan.WReq := { mode := mode, uidnum := un, gidnum := gn, hasUid := hu, hasGid := hg, hasName := hn, destInRoot := dr, length := len, mtime := mt, atime := atm }
    some (showPlan (UfsPlan.wstatPlan (← bool? dotu) w (← optNatU? lu) (← optNatU? lg)))
  | "dirwin", [ends, off, cnt] => do
    let es ← list? nat? ends
    let total := es.getLastD 0
    some (showW (window es total (← nat? off) (← nat? cnt)) ++ " ## !panic")
  | "readdir0", [ends, cnt, start] => do
    let es ← list? nat? ends
    let total := es.getLastD 0
    let start ← nat? start
    match readdir0 es total (← nat? cnt) (es.length + 2) start start [] with
    | some (got, off) =>
      -- entries by their position in the listing, runs compressed
      let pos := got.map (fun e => (es.takeWhile (· != e)).length)
      some s!"ok {showRuns pos} off={off}"
    | none => some "error"
  | "readn", [flen, io, off, n] => do
    let file : Bytes := List.replicate (← nat? flen) 7
    let n ← nat? n
    some (toString (readn file (← nat? io) (n + 1) (← nat? off) n).length)
  | "uwalk", [k, n] => do
    let k ← nat? k
    let n ← nat? n
    -- positions 0..n-1, the first k exist
    let step : Nat → Nat → Option Nat := fun p i => if i < k then some (p + 1) else none
    match ufsWalk step 0 (List.range n) with
    | .enoent => some "enoent"
    | .rwalk q (some _) => some s!"rwalk {q} moved"
    | .rwalk q none => some s!"rwalk {q} stays"
  | "omode", [m] => do
    let m ← u8? m
    some (toString (omode2uflags m))
  | "clean", [p] =>
    let comps := if p == "-" then [] else p.splitOn "/"
    some ("/" ++ "/".intercalate (clean comps))
  | "ufsjudge", _ => some "*"
  | "ufswitness", _ => some "*"
  | _, _ => none

end G9.Driver
