/-
  G9.Driver.Ufs — line-protocol commands of the Ufs logic model (C14–C18):
    dirwin <ends,…|~> <off> <cnt>        window of a directory read
    readn <filelen> <io> <off> <n>       length File.Readn returns
    uwalk <k> <n>                        Ufs.Walk of n names of which the first k exist
    omode <mode>                         omode2uflags
    clean <comp/comp/…>                  filepath.Clean of the absolute path /comp/comp/…
    ufsjudge …                           runs judged by the harness's OS oracle only
-/
import G9.UfsLogic
import G9.Driver.Text
namespace G9.Driver
open G9 G9.Ufs G9.Text

def showW : WRes → String
  | .ok c => s!"ok {c}"
  | .badOffset => "badOffset"
  | .tooSmall => "tooSmall"
  | .panic => "panic"

def ufs (cmd : String) (args : List String) : Option String :=
  match cmd, args with
  | "dirwin", [ends, off, cnt] => do
    let es ← list? nat? ends
    let total := es.getLastD 0
    some (showW (window es total (← nat? off) (← nat? cnt)) ++ " ## !panic")
  | "readn", [flen, io, off, n] => do
    let file : Bytes := List.replicate (← nat? flen) 7
    let n ← nat? n
    some (toString (readn file (← nat? io) (n + 1) (← nat? off) n).length)
  | "uwalk", [k, n] => do
    let k ← nat? k
    let n ← nat? n
    -- positions 0..n-1, the first k exist
    let step : Nat → Nat → Option Nat := fun p i => if i < k then some (p + 1) else none
    match ufsWalk step 0 (List.range n) with
    | .enoent => some "enoent"
    | .rwalk q (some _) => some s!"rwalk {q} moved"
    | .rwalk q none => some s!"rwalk {q} stays"
  | "omode", [m] => do
    let m ← u8? m
    some (toString (omode2uflags m))
  | "clean", [p] =>
    let comps := if p == "-" then [] else p.splitOn "/"
    some ("/" ++ "/".intercalate (clean comps))
  | "ufsjudge", _ => some "*"
  | "ufswitness", _ => some "*"
  | _, _ => none

end G9.Driver
