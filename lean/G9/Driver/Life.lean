/-
  G9.Driver.Life — acceptor for logs of the real server's lock-protected regions (C03, C07, C08, C11):
    life <cap> <obs> <obs> …
  Each observation is one region of the code, logged from inside the lock that protects it (so
  the log is a linearisation), with the data the region saw:
    R:<tag>:<oldtag|->:<first>   Conn.recv enqueued a request (ids count from 0 in this order)
    C:<r>:<flushed>              process(): the test of reqFlush
    I:<r>                        the implementation's handler was entered
    A:<r>  X:<r>                 the implementation calls Respond*() / Flush()
    M:<r>:<fl><wk><rs><sv>       Respond(): status before the test-and-set
    U:<r>:<next|->:<flush|->     Respond(): unlink; nextreq and the head of flushreqs
    L:<f>:<t|->                  flush(): lookup of the old tag
    F:<f>:<t>:<fl><wk><rs><sv>   flush(): status of the target before the test-and-set
    E:<r>:<fl><wk><rs><sv>       process(): status at its final update
    T:<r>                        Conn.send took a reply from the queue
    K                            Conn.close
  The acceptor replays them on G9.Life.LS: it fires the model event of each region, inserting
  the unlogged events (dispatch, the start of a nested Respond, post, queue, next, one
  iteration of the flush loop) where the model needs them, and compares everything the code
  saw with the model's state. Answer: `ok …` with the wire and implementation orders, or
  `refused <k> <obs> <why>`.
-/
import G9.SrvLife
import G9.Driver.Text
namespace G9.Driver
open G9 G9.Life G9.Text

abbrev LR := Except String

def fire (s : LS) (e : Ev) : LR LS :=
  match s.step e with
  | some s' => .ok s'
  | none => .error s!"model refuses {repr e}"

def optNat? (s : String) : Option (Option Nat) := if s == "-" then some none else s.toNat?.map some

structure Bits where
  fl : Bool
  wk : Bool
  rs : Bool
  sv : Bool
  deriving BEq

def bits? (s : String) : Option Bits :=
  match s.toList with
  | [a, b, c, d] =>
    let f (ch : Char) : Option Bool := if ch == '1' then some true else if ch == '0' then some false else none
    do pure { fl := ← f a, wk := ← f b, rs := ← f c, sv := ← f d }
  | _ => none

def bitsOf (q : Req) : Bits := { fl := q.fl, wk := q.wk, rs := q.rs, sv := q.sv }
def showBits (b : Bits) : String :=
  let f (x : Bool) := if x then "1" else "0"
  f b.fl ++ f b.wk ++ f b.rs ++ f b.sv

def findInst (s : LS) (p : Inst → Bool) : Option Nat := s.insts.findIdx? p

def findReq (s : LS) (p : Req → Bool) : Option Nat := (List.range s.n).find? (fun r => p (s.req r))

def expect (what : String) (ok : Bool) (detail : String) : LR Unit :=
  if ok then .ok () else .error s!"{what}: {detail}"

/-- move the winner of `r` (if it is still before the unlink) up to program counter `upto` -/
def advanceTo (s : LS) (i : Nat) (upto : IPC) : LR LS := do
  let mut s := s
  for _ in [0:3] do
    match s.insts[i]? with
    | some it =>
      if it.pc == upto then break
      match it.pc with
      | .post => s ← fire s (.post i)
      | .queue => s ← fire s (.queue i)
      | _ => break
    | none => break
  pure s

/-- make sure a call of Respond on `r` stands at its test-and-set: start one from a cause
    the model has ready -/
def spawnFor (s : LS) (r : Nat) : LR LS :=
  match findInst s (fun it => it.rid == r && it.pc == .mark) with
  | some _ => .ok s
  | none =>
    if (s.req r).wpc == .checked true then fire s (.selfRespond r)
    else if (s.req r).wpc == .fl1 none then fire s (.flushAct r)
    else match findReq s (fun q => q.wpc == .fl2 r true) with
      | some f => fire s (.flushAct f)
      | none =>
        -- the loop over flushreqs of some call of Respond is about to reach r
        let nextOf (it : Inst) : Option Nat := if it.sp then it.cur.bind (fun c => (s.req c).flushreq) else it.cur
        match findInst s (fun it => (it.pc == .next || it.pc == .flushes) && nextOf it == some r) with
        | some j => do
          let s ← (if (s.insts[j]?.map (·.pc)) == some .next then fire s (.next j) else .ok s)
          let s ← (if (s.insts[j]?.map (·.sp)) == some true then fire s (.flushes j) else .ok s)
          fire s (.flushes j)
        | none =>
          -- the framework itself answers (Tversion, an error found before the handler is called)
          if (s.req r).wpc == .checked false && (s.req r).oldtag == none then do
            let s ← fire s (.dispatch r)
            fire s (.answer r)
          else if (s.req r).wpc == .inImpl then fire s (.answer r)
          else .error s!"Respond on {r} without a cause in the model"

def observe (s : LS) (closed : Bool) (tok : String) : LR LS :=
  match tok.splitOn ":" with
  | ["R", tag, ot, first] => do
    let some tag := tag.toNat? | .error "bad tag"
    let some ot := optNat? ot | .error "bad oldtag"
    let s' ← fire s (.recv tag ot)
    expect "recv: process" (decide ((s'.req s.n).wpc = .start) == (first == "1")) s!"model wpc {repr (s'.req s.n).wpc}"
    pure s'
  | ["C", r, fl] => do
    let some r := r.toNat? | .error "bad id"
    let s ← (if (s.req r).wpc == .start then .ok s else
      match findInst s (fun it => it.pc == .next && it.nxt == some r) with
      | some j => fire s (.next j)
      | none => .error s!"process() of {r} started by nobody (wpc {repr (s.req r).wpc})")
    expect "check: flushed" ((s.req r).fl == (fl == "1")) s!"model fl={(s.req r).fl}"
    fire s (.check r)
  | ["I", r] => do
    let some r := r.toNat? | .error "bad id"
    fire s (.dispatch r)
  | ["A", r] => do
    let some r := r.toNat? | .error "bad id"
    fire s (.answer r)
  | ["X", r] => do
    let some r := r.toNat? | .error "bad id"
    fire s (.implFlush r)
  | ["M", r, b] => do
    let some r := r.toNat? | .error "bad id"
    let some b := bits? b | .error "bad bits"
    let s ← spawnFor s r
    expect "mark: status" (bitsOf (s.req r) == b) s!"model {showBits (bitsOf (s.req r))}"
    match findInst s (fun it => it.rid == r && it.pc == .mark) with
    | some i => fire s (.mark i)
    | none => .error "no call at its mark"
  | ["U", r, nx, fq] => do
    let some r := r.toNat? | .error "bad id"
    let some nx := optNat? nx | .error "bad next"
    let some fq := optNat? fq | .error "bad flush"
    match findInst s (fun it => it.rid == r && (it.pc == .post || it.pc == .queue || it.pc == .unlink)) with
    | none => .error s!"unlink of {r}: no winning call in the model"
    | some i => do
      let s ← advanceTo s i .unlink
      let s ← fire s (.unlink i)
      match s.insts[i]? with
      | some it =>
        expect "unlink: nextreq" (it.nxt == nx) s!"model {repr it.nxt}"
        expect "unlink: flushreqs" (it.cur == fq) s!"model {repr it.cur}"
        pure s
      | none => .error "lost the call"
  | ["L", f, t] => do
    let some f := f.toNat? | .error "bad id"
    let some t := optNat? t | .error "bad target"
    let s ← (if (s.req f).wpc == .checked false then fire s (.dispatch f) else .ok s)
    let s ← fire s (.flushLookup f)
    expect "flush.lookup: target" ((s.req f).wpc == .fl1 t) s!"model {repr (s.req f).wpc}"
    pure s
  | ["F", f, t, b] => do
    let some f := f.toNat? | .error "bad id"
    let some t := t.toNat? | .error "bad target"
    let some b := bits? b | .error "bad bits"
    expect "flush.mark: target" ((s.req f).wpc == .fl1 (some t)) s!"model {repr (s.req f).wpc}"
    expect "flush.mark: status" (bitsOf (s.req t) == b) s!"model {showBits (bitsOf (s.req t))}"
    fire s (.flushMark f)
  | ["E", r, b] => do
    let some r := r.toNat? | .error "bad id"
    let some b := bits? b | .error "bad bits"
    let s ← (match (s.req r).wpc with
      | .inImpl => fire s (.implReturn r)
      | .fl1 none => fire s (.flushAct r)
      | .fl2 _ _ => fire s (.flushAct r)
      | _ => .ok s)
    expect "process.end: status" (bitsOf (s.req r) == b) s!"model {showBits (bitsOf (s.req r))}"
    fire s (.procEnd r)
  | ["T", r] => do
    let some r := r.toNat? | .error "bad id"
    if closed then pure s else
    let s ← (match findInst s (fun it => it.rid == r && (it.pc == .post || it.pc == .queue)) with
      | some i => advanceTo s i .unlink
      | none => .ok s)
    expect "send.take: queued" (s.reqout.contains r) s!"model queue {s.reqout}"
    -- concurrent senders: the channel's order is the order of the takes
    let s := { s with reqout := r :: s.reqout.erase r }
    fire s .send
  | ["K"] => fire s .close
  | _ => .error "bad observation"

def lifeRun (cap : Nat) (toks : List String) : String :=
  let rec go (s : LS) (k : Nat) : List String → String
    | [] => s!"ok n={s.n} wire={showList toString s.wire}"
    | t :: rest =>
      match observe s s.closed t with
      | .ok s' => go s' (k + 1) rest
      | .error e => s!"refused {k} {t} {e}"
  go (LS.init cap) 0 toks

def life (cmd : String) (args : List String) : Option String :=
  match cmd, args with
  | "life", cap :: toks => do
    let cap ← cap.toNat?
    some (lifeRun cap toks)
  | "lifejudge", _ => some "*"
  -- C06: whatever the hostile session was, the expected observable is that the server process is
  -- alive and that a bystander and a fresh connection are served
  | "c06", _ => some "ok"
  | _, _ => none

end G9.Driver
