/-
  G9.Driver.Wire — line-protocol commands of the codec model (C01, C02).
  Each answer is `<model observable>` optionally followed by ` ## <oracle>`, where the
  oracle is what the *specification* (G9.Wire.Spec / the property) demands of the
  implementation's observable: an exact string, or `!panic` (anything but a trap).
-/
import G9.Driver.Text
namespace G9.Driver
open G9 G9.Text

/-- decidable form of `Spec.Rep` for the driver -/
def repB (dotu : Bool) (m : Msg) : Bool := decide (Spec.Rep dotu m)

def wire (cmd : String) (args : List String) : Option String :=
  match cmd, args with
  | "pack", dotu :: buflen :: rest => do
    let dotu ← bool? dotu
    let n ← nat? buflen
    let m ← msg? rest
    let buf : Bytes := List.replicate n 0xAA
    let model := showR showBytes (Go.pack dotu m buf)
    let enc := Spec.encode dotu NOTAG m
    -- the oracle is stated only for representable messages
    if repB dotu m then
      let spec := if enc.length ≤ n then "ok " ++ showBytes enc else "err packSmall"
      some (model ++ " ## " ++ spec)
    else some model
  | "unpack", [dotu, hex] => do
    let dotu ← bool? dotu
    let bs ← bytes? hex
    some (showR (fun (t, m, n) => s!"{t.toNat} {n} {showMsg m}") (Go.unpack dotu bs) ++ " ## !panic")
  | "unpackenc", dotu :: tag :: junk :: rest => do
    let dotu ← bool? dotu
    let tag ← u16? tag
    let junk ← bytes? junk
    let m ← msg? rest
    let enc := Spec.encode dotu tag m
    let model := showR (fun (t, m, n) => s!"{t.toNat} {n} {showMsg m}") (Go.unpack dotu (enc ++ junk))
    if repB dotu m then
      some (model ++ " ## ok " ++ s!"{tag.toNat} {enc.length} {showMsg (Go.norm dotu m)}")
    else some (model ++ " ## !panic")
  | "packdir", dotu :: rest => do
    let dotu ← bool? dotu
    let (d, r) ← stat? rest
    if !r.isEmpty then none
    let model := showBytes (Go.packDir dotu d)
    if decide (Spec.statOk dotu d) then some (model ++ " ## " ++ showBytes (Spec.stat dotu d)) else some model
  | "unpackdir", [dotu, hex] => do
    let dotu ← bool? dotu
    let bs ← bytes? hex
    some (showR (fun (d, b, amt) => s!"{amt} {b.length} {showStat d}") (Go.unpackDir dotu bs) ++ " ## !panic")
  | "dirrt", dotu :: junk :: rest => do
    let dotu ← bool? dotu
    let junk ← bytes? junk
    let (d, r) ← stat? rest
    if !r.isEmpty then none
    let enc := Spec.stat dotu d
    let model := showR (fun (d, b, amt) => s!"{amt} {b.length} {showStat d}") (Go.unpackDir dotu (Go.packDir dotu d ++ junk))
    if decide (Spec.statOk dotu d) then
      some (model ++ s!" ## ok {enc.length} {junk.length} {showStat (Go.normStat dotu d)}")
    else some (model ++ " ## !panic")
  | "settag", [tag, hex] => do
    let tag ← u16? tag
    let bs ← bytes? hex
    let model := showR showBytes (Go.setTag bs tag)
    -- oracle: bytes 5,6 replaced, nothing else (stated for packets of at least 7 bytes)
    if bs.length ≥ 7 then some (model ++ " ## ok " ++ showBytes (bs.take 5 ++ p16 tag ++ bs.drop 7))
    else some model
  | "rread", [buflen, c, n, fill] => do
    let bl ← nat? buflen
    let c ← u32? c
    let n ← u32? n
    let fill ← bytes? fill
    let buf : Bytes := List.replicate bl 0xAA
    let model : String :=
      match Go.initRread c buf with
      | .ok (bufA, size) =>
        "ok " ++ showBytes (bufA.take size) ++ " " ++
          showR showBytes (Go.setRreadCount (Go.fillData bufA c.toNat fill) n)
      | .err e => "err " ++ showE e
      | .panic => "panic"
    if 11 + c.toNat ≤ bl ∧ 11 + c.toNat < 4294967296 ∧ n.toNat ≤ c.toNat ∧ fill.length = c.toNat then
      let init := Spec.encode false NOTAG (.rread ((fill ++ List.replicate c.toNat 0xAA).take 0 ++ List.replicate c.toNat 0xAA))
      some (model ++ " ## ok " ++ showBytes init ++ " ok " ++ showBytes (Spec.encode false NOTAG (.rread (fill.take n.toNat))))
    else if 11 + c.toNat > bl then some (model ++ " ## err packSmall")
    else some model
  | "rread", [buflen, c, n, fill, tag] => do
    -- the same with a tag set between InitRread and SetRreadCount
    let bl ← nat? buflen
    let c ← u32? c
    let n ← u32? n
    let fill ← bytes? fill
    let tag ← u16? tag
    let buf : Bytes := List.replicate bl 0xAA
    let model : String :=
      match Go.initRread c buf with
      | .ok (bufA, _) => showR showBytes (Go.setRreadCount (Go.tagBuf (Go.fillData bufA c.toNat fill) tag) n)
      | .err e => "err " ++ showE e
      | .panic => "panic"
    if 11 + c.toNat ≤ bl ∧ 11 + c.toNat < 4294967296 ∧ n.toNat ≤ c.toNat ∧ fill.length = c.toNat then
      some (model ++ " ## ok " ++ showBytes (Spec.encode false tag (.rread (fill.take n.toNat))))
    else if 11 + c.toNat > bl then some (model ++ " ## err packSmall")
    else some model
  | "allocbound", [hex] => do
    let bs ← bytes? hex
    -- bytes the decoder may allocate for this input: 16 per walk element behind the guard
    -- (≤ 8·len), copies of sub-slices (≤ len), and fixed-size objects (Fcall, error)
    some s!"* ## le {9 * bs.length + 1024}"
  | _, _ => none

end G9.Driver
