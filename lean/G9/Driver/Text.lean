/-
  G9.Driver.Text — the line protocol's text forms (shared by every driver module).
  Integers decimal, byte strings hex (`-` = empty), lists comma-separated (`~` = empty list).
-/
import G9.Wire.Go
namespace G9.Text

def nat? (s : String) : Option Nat := s.toNat?

def u8? (s : String) : Option UInt8 := do let n ← s.toNat?; if n < 256 then some (UInt8.ofNat n) else none
def u16? (s : String) : Option UInt16 := do let n ← s.toNat?; if n < 65536 then some (UInt16.ofNat n) else none
def u32? (s : String) : Option UInt32 := do let n ← s.toNat?; if n < 4294967296 then some (UInt32.ofNat n) else none
def u64? (s : String) : Option UInt64 := do let n ← s.toNat?; if n < 18446744073709551616 then some (UInt64.ofNat n) else none
def bool? (s : String) : Option Bool := if s == "1" then some true else if s == "0" then some false else none

def bytes? (s : String) : Option Bytes := ofHex s
def showBytes (b : Bytes) : String := hexOr b

def list? {α} (f : String → Option α) (s : String) : Option (List α) :=
  if s == "~" then some [] else (s.splitOn ",").mapM f
def showList {α} (f : α → String) (l : List α) : String :=
  if l.isEmpty then "~" else ",".intercalate (l.map f)

def showQid (q : Qid) : String := s!"{q.typ.toNat}:{q.vers.toNat}:{q.path.toNat}"
def qid? (s : String) : Option Qid :=
  match s.splitOn ":" with
  | [a, b, c] => do pure { typ := ← u8? a, vers := ← u32? b, path := ← u64? c }
  | _ => none

def showStat (d : Stat) : String :=
  s!"{d.typ.toNat} {d.dev.toNat} {showQid d.qid} {d.mode.toNat} {d.atime.toNat} {d.mtime.toNat} {d.length.toNat} {showBytes d.name} {showBytes d.uid} {showBytes d.gid} {showBytes d.muid} {showBytes d.ext} {d.uidnum.toNat} {d.gidnum.toNat} {d.muidnum.toNat}"

def stat? : List String → Option (Stat × List String)
  | ty :: dev :: q :: mode :: atm :: mtm :: len :: name :: uid :: gid :: muid :: ext :: un :: gn :: mn :: rest => do
    pure ({ typ := ← u16? ty, dev := ← u32? dev, qid := ← qid? q, mode := ← u32? mode, atime := ← u32? atm,
            mtime := ← u32? mtm, length := ← u64? len, name := ← bytes? name, uid := ← bytes? uid,
            gid := ← bytes? gid, muid := ← bytes? muid, ext := ← bytes? ext, uidnum := ← u32? un,
            gidnum := ← u32? gn, muidnum := ← u32? mn }, rest)
  | _ => none

def showMsg : Msg → String
  | .tversion ms v => s!"Tversion {ms.toNat} {showBytes v}"
  | .rversion ms v => s!"Rversion {ms.toNat} {showBytes v}"
  | .tauth a un an n => s!"Tauth {a.toNat} {showBytes un} {showBytes an} {n.toNat}"
  | .rauth q => s!"Rauth {showQid q}"
  | .tattach f a un an n => s!"Tattach {f.toNat} {a.toNat} {showBytes un} {showBytes an} {n.toNat}"
  | .rattach q => s!"Rattach {showQid q}"
  | .rerror e c => s!"Rerror {showBytes e} {c.toNat}"
  | .tflush t => s!"Tflush {t.toNat}"
  | .rflush => "Rflush"
  | .twalk f nf ns => s!"Twalk {f.toNat} {nf.toNat} {showList showBytes ns}"
  | .rwalk qs => s!"Rwalk {showList showQid qs}"
  | .topen f m => s!"Topen {f.toNat} {m.toNat}"
  | .ropen q io => s!"Ropen {showQid q} {io.toNat}"
  | .tcreate f n p m e => s!"Tcreate {f.toNat} {showBytes n} {p.toNat} {m.toNat} {showBytes e}"
  | .rcreate q io => s!"Rcreate {showQid q} {io.toNat}"
  | .tread f o c => s!"Tread {f.toNat} {o.toNat} {c.toNat}"
  | .rread d => s!"Rread {showBytes d}"
  | .twrite f o c d => s!"Twrite {f.toNat} {o.toNat} {c.toNat} {showBytes d}"
  | .rwrite c => s!"Rwrite {c.toNat}"
  | .tclunk f => s!"Tclunk {f.toNat}"
  | .rclunk => "Rclunk"
  | .tremove f => s!"Tremove {f.toNat}"
  | .rremove => "Rremove"
  | .tstat f => s!"Tstat {f.toNat}"
  | .rstat d => s!"Rstat {showStat d}"
  | .twstat f d => s!"Twstat {f.toNat} {showStat d}"
  | .rwstat => "Rwstat"

def msg? : List String → Option Msg
  | ["Tversion", ms, v] => do pure (.tversion (← u32? ms) (← bytes? v))
  | ["Rversion", ms, v] => do pure (.rversion (← u32? ms) (← bytes? v))
  | ["Tauth", a, un, an, n] => do pure (.tauth (← u32? a) (← bytes? un) (← bytes? an) (← u32? n))
  | ["Rauth", q] => do pure (.rauth (← qid? q))
  | ["Tattach", f, a, un, an, n] => do
      pure (.tattach (← u32? f) (← u32? a) (← bytes? un) (← bytes? an) (← u32? n))
  | ["Rattach", q] => do pure (.rattach (← qid? q))
  | ["Rerror", e, c] => do pure (.rerror (← bytes? e) (← u32? c))
  | ["Tflush", t] => do pure (.tflush (← u16? t))
  | ["Rflush"] => some .rflush
  | ["Twalk", f, nf, ns] => do pure (.twalk (← u32? f) (← u32? nf) (← list? bytes? ns))
  | ["Rwalk", qs] => do pure (.rwalk (← list? qid? qs))
  | ["Topen", f, m] => do pure (.topen (← u32? f) (← u8? m))
  | ["Ropen", q, io] => do pure (.ropen (← qid? q) (← u32? io))
  | ["Tcreate", f, n, p, m, e] => do
      pure (.tcreate (← u32? f) (← bytes? n) (← u32? p) (← u8? m) (← bytes? e))
  | ["Rcreate", q, io] => do pure (.rcreate (← qid? q) (← u32? io))
  | ["Tread", f, o, c] => do pure (.tread (← u32? f) (← u64? o) (← u32? c))
  | ["Rread", d] => do pure (.rread (← bytes? d))
  | ["Twrite", f, o, c, d] => do pure (.twrite (← u32? f) (← u64? o) (← u32? c) (← bytes? d))
  | ["Rwrite", c] => do pure (.rwrite (← u32? c))
  | ["Tclunk", f] => do pure (.tclunk (← u32? f))
  | ["Rclunk"] => some .rclunk
  | ["Tremove", f] => do pure (.tremove (← u32? f))
  | ["Rremove"] => some .rremove
  | ["Tstat", f] => do pure (.tstat (← u32? f))
  | "Rstat" :: rest => do let (d, r) ← stat? rest; if r.isEmpty then pure (.rstat d) else none
  | "Twstat" :: f :: rest => do
      let (d, r) ← stat? rest; if r.isEmpty then pure (.twstat (← u32? f) d) else none
  | ["Rwstat"] => some .rwstat
  | _ => none

def showE : Go.E → String
  | .bufShort => "bufShort" | .sizeBad => "sizeBad" | .idBad => "idBad" | .szerror => "szerror"
  | .statShort => "statShort" | .statField => "statField" | .packSmall => "packSmall"

def showR {α} (f : α → String) : Go.R α → String
  | .ok a => "ok " ++ f a
  | .err e => "err " ++ showE e
  | .panic => "panic"

end G9.Text
