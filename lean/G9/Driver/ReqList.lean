/-
  G9.Driver.ReqList — the client's pending list, pointer level (C09):
    reqlist <op> <op> …       a<r> Rpcnb appends Req r, u<r> recv unlinks it, f<r> ReqFree clears it
  answers, after every op, the walk from reqfirst through next and the walk from reqlast through
  prev:  <fwd>/<back>|<fwd>/<back>|…   (requests by number, `-` for the empty list)
-/
import G9.ReqList
import G9.Driver.Text
namespace G9.Driver
open G9 G9.ReqList G9.Text

/-- the walk from `reqlast` through `prev` -/
def walkBack (s : RL) : Nat → Option Nat → List Nat
  | 0, _ => []
  | _ + 1, none => []
  | fuel + 1, some a => a :: walkBack s fuel (s.prev a)

def showNats (l : List Nat) : String := if l.isEmpty then "-" else ",".intercalate (l.map toString)

def reqlist (cmd : String) (args : List String) : Option String :=
  match cmd with
  | "reqlist" => do
    let step := fun (acc : RL × List String) (tok : String) => do
      let cs := tok.toList
      let r ← (String.ofList (cs.drop 1)).toNat?
      let s := acc.1
      let s' ← match cs.headD ' ' with
        | 'a' => some (s.append r)
        | 'u' => some (s.unlink r)
        | 'f' => some (s.free r)
        | _ => none
      let cap := args.length + 2
      some (s', acc.2 ++ [showNats (s'.walk cap s'.first) ++ "/" ++ showNats (walkBack s' cap s'.last)])
    let (_, outs) ← args.foldlM step (({} : RL), [])
    some ("|".intercalate outs)
  | _ => none

end G9.Driver
