/-
  G9.Driver.SrvSeq — line-protocol command of the sequential framework model (C04, C05, C12):
    srvseq <msize> <dotu> <auth> ; <T message> > <answer> [, <AuthCheck answer>] ; …
-/
import G9.SrvSeq
import G9.Version
import G9.Driver.Text
namespace G9.Driver
open G9 G9.Srv G9.Text

def splitTok (t : List String) (sep : String) : List (List String) :=
  let (acc, cur) := t.foldl (fun (acc, cur) x => if x == sep then (acc ++ [cur], []) else (acc, cur ++ [x])) ([], [])
  acc ++ [cur]

def ans? (t : List String) : Option Ans :=
  match t with
  | [e] =>
    if e.startsWith "E:" then
      match e.splitOn ":" with
      | [_, n, k] => do pure (.e (← bytes? n) (← u32? k))
      | _ => none
    else (msg? t).map .r
  | _ => (msg? t).map .r

def opName : Op → String
  | .attach => "attach" | .walk => "walk" | .open => "open" | .create => "create" | .read => "read"
  | .write => "write" | .clunk => "clunk" | .remove => "remove" | .stat => "stat" | .wstat => "wstat"
  | .authInit => "authInit" | .authCheck => "authCheck" | .authRead => "authRead"
  | .authWrite => "authWrite" | .authDestroy => "authDestroy"

def showOptFid : Option UInt32 → String
  | some f => toString f.toNat
  | none => "-"

def showCall (c : Call) : String :=
  s!"{opName c.op}:{c.fid.toNat}:{c.user}:{showOptFid c.afid}:{showOptFid c.newfid}"

def insertBy {α} (lt : α → α → Bool) (x : α) : List α → List α
  | [] => [x]
  | y :: ys => if lt x y then x :: y :: ys else y :: insertBy lt x ys

def sortBy {α} (lt : α → α → Bool) (l : List α) : List α := l.foldr (insertBy lt) []

def showFidsTab (fs : Fids) : String :=
  let srt := sortBy (fun (a b : UInt32 × FidRec) => a.1 < b.1) fs
  "[" ++ ",".intercalate (srt.map fun (k, r) =>
    s!"{k.toNat}:{r.user}:{r.typ.toNat}:{if r.opened then 1 else 0}:{r.omode.toNat}:{r.diroff.toNat}:{r.ref}") ++ "]"

def showStep (c : Conn) (o : Obs) : String :=
  let m := Go.norm c.dotu (wireReply c o.reply)
  let rep := (showMsg m).replace " " "_"
  let len := (Spec.encode c.dotu 0 m).length
  s!"calls=[{",".intercalate (o.calls.map showCall)}] reply={rep} len={len} destroyed=[{",".intercalate (o.destroyed.map (toString ·.toNat))}] fids={showFidsTab c.fids} m={c.msize.toNat}/{if c.dotu then 1 else 0}"

def srvCfg (msize : UInt32) (dotu auth : Bool) : Cfg :=
  { srvMsize := msize, srvDotu := dotu, hasAuth := auth,
    uid2user := fun n => some n.toNat,        -- OsUsers.Uid2User: a user for every uid
    uname2user := fun _ => none }             -- OsUsers.Uname2User: unimplemented

def srvseq (cmd : String) (args : List String) : Option String :=
  match cmd with
  | "connect" =>
    -- connect <client msize> <client dotu> <server msize> <server dotu>: the client's Connect against the framework
    match args with
    | [cm, cd, sm, sd] => do
      let cfg := srvCfg (← u32? sm) (← bool? sd) false
      match Version.connect cfg (fun _ => .r .rflush) (← u32? cm) (← bool? cd) with
      | some ((m, d), sc) => some s!"ok {m.toNat} {if d then 1 else 0} {sc.msize.toNat} {if sc.dotu then 1 else 0}"
      | none => some "refused"
    | _ => none
  | "srvseq" =>
    match splitTok args ";" with
    | [ms, du, au] :: steps => do
      let cfg := srvCfg (← u32? ms) (← bool? du) (← bool? au)
      let rec go (c : Conn) (steps : List (List String)) (acc : List String) : Option (List String) :=
        match steps with
        | [] => some acc
        | st :: rest =>
          match splitTok st ">" with
          | [msg, ans] => do
            let t ← msg? msg
            let as := splitTok ans ","
            let main ← ans? (← as[0]?)
            let chk : Ans ← match as[1]? with
              | some a => ans? a
              | none => some (.r .rflush)
            let impl : Impl := fun call => if call.op == .authCheck then chk else main
            match stepFrame cfg impl c t with
            | none => some (acc ++ ["no-reply"])        -- connection dropped: the history ends here
            | some (c', o) => go c' rest (acc ++ [showStep c' o])
          | _ => none
      let outs ← go (Conn.init cfg) steps []
      some (" ; ".intercalate outs)
    | _ => none
  | _ => none

end G9.Driver
