/-
  G9.Driver.FidLife — acceptor for logs of the regions of the real server's fid table (C11, C04):
    fidlife <q|-> <obs> <obs> …
  Each observation is one lock-protected region of FidNew/FidGet/retain/IncRef/DecRef/destroy/
  Conn.close, logged from inside its lock with what the region saw (objects are numbered in the
  order FidNew created them):
    N:<num>:<o>        FidNew made object o for fid number num
    L:<num>:<o|->      FidGet: the table lookup
    G:<o>:<pending>:<ref>   FidGet: the test of pending; the reference count afterwards
    R:<o>:<closed>:<ref>    retain: whether it saw the connection gone; the count afterwards
    I:<o>:<ref>        IncRef
    T:<o>:<kept>       release(): whether the table still had its reference (Tclunk/Tremove post-handlers)
    D:<o>:<ref>        DecRef, first region; the count afterwards
    U:<o>:<mine>       DecRef, second region: whether the table entry was this object
    X:<o>:<done>       destroy(): the flag before the test-and-set
    C:<o>              the file server's FidDestroy is called
    K                  Conn.close has closed conn.done (logged after the close; the model's
                       closeDone fires at the first region that depends on it; a retain that read
                       conn.done open and is logged after the copy of the table is replayed as
                       having run before the close, if Conn.close has not visited its fid yet)
    S:<o>,<o>,…|-      Conn.close: the copy of the table
    V:<o>:<pending>:<kept>   Conn.close: one fid of the copy; whether it took the table's reference
  The acceptor replays them on G9.FidLife.FS and compares everything the code saw with the
  model's state.  With `q` the connection is gone and all its goroutines have ended: the end
  state must be quiescent.  Answer: `ok n=<objects> nd=[FidDestroy calls per object]`, or
  `refused <k> <obs> <why>`, or `notquiescent <object> …`.
-/
import G9.FidLife
import G9.Driver.Text
namespace G9.Driver
open G9 G9.FidLife G9.Text

abbrev FR := Except String

def ffire (s : FS) (e : FEv) : FR FS :=
  match s.step e with
  | some s' => .ok s'
  | none => .error s!"model refuses {repr e}"

def fexpect (what : String) (ok : Bool) (detail : String) : FR Unit :=
  if ok then .ok () else .error s!"{what}: {detail}"

def bool01? (s : String) : Option Bool := if s == "1" then some true else if s == "0" then some false else none

def optNatF? (s : String) : Option (Option Nat) := if s == "-" then some none else s.toNat?.map some

def natList? (s : String) : Option (List Nat) :=
  if s == "-" then some [] else (s.splitOn ",").mapM (·.toNat?)

def ensureClosed (s : FS) : FR FS := if s.closed then .ok s else ffire s .closeDone

def fobserve (s : FS) (tok : String) : FR FS :=
  match tok.splitOn ":" with
  | ["N", k, o] => do
    let some k := k.toNat? | .error "bad number"
    let some o := o.toNat? | .error "bad object"
    fexpect "fid.new: object" (o == s.n) s!"model has {s.n} objects"
    ffire s (.new k)
  | ["L", k, r] => do
    let some k := k.toNat? | .error "bad number"
    let some r := optNatF? r | .error "bad object"
    fexpect "fid.lookup: entry" (s.pool k == r) s!"model table has {repr (s.pool k)}"
    ffire s (.look k r)
  | ["G", o, p, r] => do
    let some o := o.toNat? | .error "bad object"
    let some p := bool01? p | .error "bad flag"
    let some r := r.toInt? | .error "bad count"
    fexpect "fid.get: pending" ((s.obj o).pending == p) s!"model {(s.obj o).pending}"
    let s ← ffire s (.get o)
    fexpect "fid.get: refcount" ((s.obj o).ref == r) s!"model {(s.obj o).ref}"
    pure s
  | ["R", o, c, r] => do
    let some o := o.toNat? | .error "bad object"
    let some c := bool01? c | .error "bad flag"
    let some r := r.toInt? | .error "bad count"
    let s ← (if c then ensureClosed s else .ok s)
    if !c && s.closed then
      -- The region read conn.done before Conn.close closed it and was logged after the copy of the
      -- table (retain runs under the fid's lock, the copy under the connection's: they overlap). It
      -- commutes with closeDone and the snapshot as long as Conn.close has not visited this fid —
      -- the visit needs the fid's lock, so it is logged after this region if it came after it.
      let x := s.obj o
      let unvisited := match s.snap with
        | none => true
        | some l => l.contains o
      fexpect "fid.retain: saw the connection open after Conn.close had visited the fid"
        (decide (o < s.n) && x.pending && decide (1 ≤ x.holds) && unvisited) s!"model snap={repr s.snap} pending={x.pending}"
      let s' := setO s o { x with ref := x.ref + 1, tbl := true, pending := false }
      fexpect "fid.retain: refcount" ((s'.obj o).ref == r) s!"model {(s'.obj o).ref}"
      pure s'
    else do
      let s ← ffire s (.retain o)
      fexpect "fid.retain: refcount" ((s.obj o).ref == r) s!"model {(s.obj o).ref}"
      pure s
  | ["I", o, r] => do
    let some o := o.toNat? | .error "bad object"
    let some r := r.toInt? | .error "bad count"
    let s ← ffire s (.inc o)
    fexpect "fid.inc: refcount" ((s.obj o).ref == r) s!"model {(s.obj o).ref}"
    pure s
  | ["T", o, k] => do
    let some o := o.toNat? | .error "bad object"
    let some k := bool01? k | .error "bad flag"
    fexpect "fid.release: table reference" ((s.obj o).tbl == k) s!"model {(s.obj o).tbl}"
    ffire s (.release o)
  | ["D", o, r] => do
    let some o := o.toNat? | .error "bad object"
    let some r := r.toInt? | .error "bad count"
    let s ← ffire s (.dec o)
    fexpect "fid.dec: refcount" ((s.obj o).ref == r) s!"model {(s.obj o).ref}"
    pure s
  | ["U", o, m] => do
    let some o := o.toNat? | .error "bad object"
    let some m := bool01? m | .error "bad flag"
    fexpect "fid.unpool: own entry" (decide (s.inpool o) == m) s!"model {decide (s.inpool o)}"
    ffire s (.unpool o)
  | ["X", o, d] => do
    let some o := o.toNat? | .error "bad object"
    let some d := bool01? d | .error "bad flag"
    fexpect "fid.destroy: flag" ((s.obj o).destroyed == d) s!"model {(s.obj o).destroyed}"
    ffire s (.dstr o)
  | ["C", o] => do
    let some o := o.toNat? | .error "bad object"
    ffire s (.call o)
  | ["K"] => pure s     -- closeDone fires where it is first needed (see the header)
  | ["S", l] => do
    let some l := natList? l | .error "bad list"
    let s ← ensureClosed s
    ffire s (.snapshot l)
  | ["V", o, p, k] => do
    let some o := o.toNat? | .error "bad object"
    let some p := bool01? p | .error "bad flag"
    let some k := bool01? k | .error "bad flag"
    fexpect "close.visit: next fid of the copy" (s.snap.bind List.head? == some o) s!"model {repr s.snap}"
    fexpect "close.visit: pending" ((s.obj o).pending == p) s!"model {(s.obj o).pending}"
    fexpect "close.visit: table reference taken" ((!(s.obj o).pending && (s.obj o).tbl) == k) s!"model pending={(s.obj o).pending} kept={(s.obj o).tbl}"
    ffire s .visit
  | _ => .error "bad observation"

def notQuiet (s : FS) : Option String :=
  if s.snap != some [] then some s!"Conn.close has not visited its copy of the table: {repr s.snap}" else
  (List.range s.n).findSome? (fun o =>
    let x := s.obj o
    if x.holds != 0 || x.dyA != 0 || x.dyB != 0 || x.calls != 0 then
      some s!"object {o} (fid {x.num}): holds={x.holds} dying={x.dyA + x.dyB} calls={x.calls}"
    else none)

def fidRun (ended : Bool) (toks : List String) : String :=
  let rec go (s : FS) (k : Nat) : List String → String
    | [] =>
      match (if ended then notQuiet s else none) with
      | some why => s!"notquiescent {why}"
      | none => s!"ok n={s.n} nd={showList (fun o => toString (s.obj o).nd) (List.range s.n)}"
    | t :: rest =>
      match fobserve s t with
      | .ok s' => go s' (k + 1) rest
      | .error e => s!"refused {k} {t} {e}"
  go FS.init 0 toks

def fidlife (cmd : String) (args : List String) : Option String :=
  match cmd, args with
  | "fidlife", e :: toks => some (fidRun (e == "q") (toks.filter (· != "")))
  | _, _ => none

end G9.Driver
