/-
  G9.SrvSeq — M3: the server framework, one request at a time.
  Mirror of srv_srv.go (`SrvReq.Process/PostProcess`, `FidNew/FidGet/IncRef/DecRef`),
  srv_fcall.go (`version/auth/attach/flush/walk/open/create/read/write/clunk/remove/stat/
  wstat` and the `*Post` handlers) and srv_respond.go (`RespondError`, `RespondR*`),
  for histories in which each request is answered before the next one is sent.
  The file-server implementation is a parameter: an arbitrary function from the call it
  receives to its answer — theorems quantify over it.
-/
import G9.Wire.Go
namespace G9.Srv

/-- `SrvFid` -/
structure FidRec where
  user : Nat
  typ : UInt8 := 0
  opened : Bool := false
  omode : UInt8 := 0
  diroff : UInt64 := 0
  ref : Nat := 1
  deriving Repr, DecidableEq

/-- `conn.fidpool` as an association list (keys kept distinct by `fidNew`) -/
abbrev Fids := List (UInt32 × FidRec)

structure Conn where
  fids : Fids := []
  msize : UInt32
  dotu : Bool
  deriving Repr

/-- errors the framework itself produces (texts/numbers: `Generated.errors`) -/
inductive FErr where
  | unknownfid | noauth | inuse | baduse | eopen | enotdir | eperm | etoolarge | nouser | enotimpl
  | msizeSmall            -- "msize too small"
  | packSmall             -- "buffer too small" (a reply that does not fit msize)
  | badtype               -- "unknown message type" (an R-message sent as a request)
  deriving Repr, DecidableEq

/-- what the implementation may answer: any R-message, or an error -/
inductive Ans where
  | r (m : Msg)
  | e (ename : Bytes) (ecode : UInt32)
  deriving Repr, DecidableEq

inductive Op where
  | attach | walk | open | create | read | write | clunk | remove | stat | wstat
  | authInit | authCheck | authRead | authWrite | authDestroy
  deriving Repr, DecidableEq

/-- a call that reaches the implementation: the operation, the fids it is shown (by
    number, with the user bound to the main fid) and the request's own arguments -/
structure Call where
  op : Op
  fid : UInt32
  user : Nat
  afid : Option UInt32 := none
  newfid : Option UInt32 := none
  args : Msg
  deriving Repr, DecidableEq

abbrev Impl := Call → Ans

structure Cfg where
  srvMsize : UInt32
  srvDotu : Bool
  hasAuth : Bool                      -- ops implements AuthOps
  uid2user : UInt32 → Option Nat      -- Upool.Uid2User(int(unamenum))
  uname2user : Bytes → Option Nat     -- Upool.Uname2User(uname)

inductive Reply where
  | err (e : FErr)
  | implErr (ename : Bytes) (ecode : UInt32)
  | r (m : Msg)
  deriving Repr, DecidableEq

structure Obs where
  calls : List Call            -- what reached the implementation, in order
  reply : Reply
  destroyed : List UInt32      -- FidDestroy, in order
  deriving Repr

/-! ### fid table primitives -/

def lookup (fs : Fids) (k : UInt32) : Option FidRec := (fs.find? (·.1 == k)).map (·.2)

def erase (fs : Fids) (k : UInt32) : Fids := fs.filter (·.1 != k)

def setFid (fs : Fids) (k : UInt32) (r : FidRec) : Fids :=
  fs.map (fun p => if p.1 == k then (k, r) else p)

def modFid (fs : Fids) (k : UInt32) (f : FidRec → FidRec) : Fids :=
  fs.map (fun p => if p.1 == k then (k, f p.2) else p)

/-- `FidNew`: `none` if the number is taken; else the table with a fresh record, refcount 1 -/
def fidNew (fs : Fids) (k : UInt32) (user : Nat) : Option Fids :=
  match lookup fs k with
  | some _ => none
  | none => some ((k, { user := user }) :: fs)

def incRef (fs : Fids) (k : UInt32) : Fids := modFid fs k (fun r => { r with ref := r.ref + 1 })

/-- `DecRef`: at zero the fid leaves the table and `FidDestroy` is called -/
def decRef (fs : Fids) (k : UInt32) : Fids × List UInt32 :=
  match lookup fs k with
  | none => (fs, [])
  | some r => if r.ref ≤ 1 then (erase fs k, [k]) else (modFid fs k (fun r => { r with ref := r.ref - 1 }), [])

def decRefs (fs : Fids) : List UInt32 → Fids × List UInt32
  | [] => (fs, [])
  | k :: ks =>
    let (fs1, d1) := decRef fs k
    let (fs2, d2) := decRefs fs1 ks
    (fs2, d1 ++ d2)

/-! ### constants -/

def IOHDRSZ : UInt32 := 24
def QTDIR : UInt8 := 0x80
def QTAUTH : UInt8 := 0x08
def OREAD : UInt8 := 0
def OEXEC : UInt8 := 3
def DMDIR : UInt32 := 0x80000000
def DMSPECIAL : UInt32 := 0x00200000 ||| 0x02000000 ||| 0x01000000 ||| 0x00800000 ||| 0x00100000
  -- DMNAMEDPIPE|DMSYMLINK|DMLINK|DMDEVICE|DMSOCKET

def v9P2000 : Bytes := [0x39, 0x50, 0x32, 0x30, 0x30, 0x30]
def v9P2000u : Bytes := v9P2000 ++ [0x2e, 0x75]

/-! ### one request -/

/-- outcome of the pre-reply part of a handler -/
inductive Pre where
  | refuse (e : FErr)                    -- RespondError by the framework, nothing forwarded
  | answer (calls : List Call) (a : Ans) -- what the implementation (or the framework) answered
  deriving Repr

/-- work in progress on one request: table, fids held by the request (`req.Fid`,
    `req.Afid`, `req.Newfid`, each released by `PostProcess`), and the outcome -/
structure Mid where
  c : Conn
  held : List UInt32
  pre : Pre

def userOf (cfg : Cfg) (c : Conn) (uname : Bytes) (unamenum : UInt32) : Option Nat :=
  if unamenum != NOUID || c.dotu then cfg.uid2user unamenum
  else if uname != [] then cfg.uname2user uname
  else none

/-- the fid[4] of the messages that carry one (Tattach is handled by `attach` itself) -/
def msgFid : Msg → Option UInt32
  | .twalk f _ _ | .topen f _ | .tcreate f _ _ _ _ | .tread f _ _ | .twrite f _ _ _
  | .tclunk f | .tremove f | .tstat f | .twstat f _ => some f
  | _ => none

def isDir (r : FidRec) : Bool := r.typ &&& QTDIR != 0
def isAuth (r : FidRec) : Bool := r.typ &&& QTAUTH != 0

/-- `Process` and the handler, up to the reply -/
def pre (cfg : Cfg) (impl : Impl) (c : Conn) (t : Msg) : Mid :=
  match t with
  | .tversion ms ver =>
    if ms < IOHDRSZ then ⟨c, [], .refuse .msizeSmall⟩
    else
      let m := if ms < c.msize then ms else c.msize
      let du := ver == v9P2000u && cfg.srvDotu
      ⟨{ c with msize := m, dotu := du }, [], .answer [] (.r (.rversion m (if du then v9P2000u else v9P2000)))⟩
  | .tauth afid uname aname unum =>
    if afid == NOFID then ⟨c, [], .refuse .unknownfid⟩ else
    -- FidNew happens before the user lookup; the record's user is set afterwards
    match fidNew c.fids afid 0 with
    | none => ⟨c, [], .refuse .inuse⟩
    | some fs =>
      match userOf cfg c uname unum with
      | none => ⟨{ c with fids := fs }, [afid], .refuse .nouser⟩
      | some u =>
        let fs := modFid fs afid (fun r => { r with user := u, typ := QTAUTH })
        let c' := { c with fids := fs }
        if cfg.hasAuth then
          let call : Call := { op := .authInit, fid := afid, user := u, args := t }
          match impl call with
          | .r (.rauth q) => ⟨c', [afid], .answer [call] (.r (.rauth { q with typ := q.typ ||| QTAUTH }))⟩
          | .r m => ⟨c', [afid], .answer [call] (.r m)⟩
          | .e n k => ⟨c', [afid], .answer [call] (.e n k)⟩
        else ⟨c', [afid], .refuse .noauth⟩
  | .tattach fid afid uname _ unum =>
    if fid == NOFID then ⟨c, [], .refuse .unknownfid⟩ else
    match fidNew c.fids fid 0 with
    | none => ⟨c, [], .refuse .inuse⟩
    | some fs =>
      match userOf cfg c uname unum with
      | none => ⟨{ c with fids := fs }, [fid], .refuse .nouser⟩
      | some u =>
        -- afid lookup (FidGet increments its refcount)
        let go (fs : Fids) (held : List UInt32) (af : Option UInt32) : Mid :=
          let fs := modFid fs fid (fun r => { r with user := u })
          let c' := { c with fids := fs }
          let attachCall : Call := { op := .attach, fid := fid, user := u, afid := af, args := t }
          if cfg.hasAuth then
            let chk : Call := { op := .authCheck, fid := fid, user := u, afid := af, args := t }
            match impl chk with
            | .e n k => ⟨c', held, .answer [chk] (.e n k)⟩
            | .r _ => ⟨c', held, .answer [chk, attachCall] (impl attachCall)⟩
          else ⟨c', held, .answer [attachCall] (impl attachCall)⟩
        -- the fid being created is not visible yet (FidGet treats a pending fid as unknown)
        if afid != NOFID then
          match (if afid == fid then none else lookup fs afid) with
          | none => ⟨{ c with fids := fs }, [fid], .refuse .unknownfid⟩
          | some _ => go (incRef fs afid) [fid, afid] (some afid)
        else go fs [fid] none
  | .tflush _ => ⟨c, [], .answer [] (.r .rflush)⟩      -- nothing outstanding in a sequential history
  | _ =>
    match msgFid t with
    | none => ⟨c, [], .refuse .badtype⟩                 -- an R-message as a request: `default:` of the switch
    | some f =>
      if f == NOFID then ⟨c, [], .refuse .unknownfid⟩ else
      match lookup c.fids f with
      | none => ⟨c, [], .refuse .unknownfid⟩
      | some r =>
        let fs := incRef c.fids f          -- FidGet
        let c1 := { c with fids := fs }
        let fwd (c2 : Conn) (held : List UInt32) (call : Call) : Mid := ⟨c2, held, .answer [call] (impl call)⟩
        match t with
        | .twalk _ nf names =>
          if names.length > 0 && !isDir r then ⟨c1, [f], .refuse .enotdir⟩
          else if r.opened then ⟨c1, [f], .refuse .baduse⟩
          else if f != nf then
            if nf == NOFID then ⟨c1, [f], .refuse .unknownfid⟩ else
            match fidNew fs nf r.user with
            | none => ⟨c1, [f], .refuse .inuse⟩
            | some fs' =>
              let fs' := modFid fs' nf (fun x => { x with typ := r.typ })
              fwd { c with fids := fs' } [f, nf] { op := .walk, fid := f, user := r.user, newfid := some nf, args := t }
          else
            fwd { c with fids := incRef fs f } [f, f] { op := .walk, fid := f, user := r.user, newfid := some f, args := t }
        | .topen _ mode =>
          if r.opened then ⟨c1, [f], .refuse .eopen⟩
          else if isDir r && mode != OREAD then ⟨c1, [f], .refuse .eperm⟩
          else
            fwd { c with fids := modFid fs f (fun x => { x with omode := mode }) } [f]
              { op := .open, fid := f, user := r.user, args := t }
        | .tcreate _ _ perm mode _ =>
          if r.opened then ⟨c1, [f], .refuse .eopen⟩
          else if !isDir r then ⟨c1, [f], .refuse .enotdir⟩
          else if perm &&& DMDIR != 0 && mode != OREAD then ⟨c1, [f], .refuse .eperm⟩
          else if perm &&& DMSPECIAL != 0 && !c.dotu then ⟨c1, [f], .refuse .eperm⟩
          else
            fwd { c with fids := modFid fs f (fun x => { x with omode := mode }) } [f]
              { op := .create, fid := f, user := r.user, args := t }
        | .tread _ off cnt =>
          if cnt > c.msize - IOHDRSZ then ⟨c1, [f], .refuse .etoolarge⟩
          else if isAuth r then
            if cfg.hasAuth then fwd c1 [f] { op := .authRead, fid := f, user := r.user, args := t }
            else ⟨c1, [f], .refuse .enotimpl⟩
          else
            let fs2 := if isDir r then modFid fs f (fun x => { x with diroff := off }) else fs
            fwd { c with fids := fs2 } [f] { op := .read, fid := f, user := r.user, args := t }
        | .twrite _ _ cnt _ =>
          if isAuth r then
            if cfg.hasAuth then fwd c1 [f] { op := .authWrite, fid := f, user := r.user, args := t }
            else ⟨c1, [f], .refuse .enotimpl⟩
          else if !r.opened || isDir r || r.omode &&& 3 == OREAD || r.omode &&& 3 == OEXEC then
            ⟨c1, [f], .refuse .baduse⟩
          else if cnt > c.msize - IOHDRSZ then ⟨c1, [f], .refuse .etoolarge⟩
          else fwd c1 [f] { op := .write, fid := f, user := r.user, args := t }
        | .tclunk _ =>
          if isAuth r then
            if cfg.hasAuth then
              let call : Call := { op := .authDestroy, fid := f, user := r.user, args := t }
              ⟨c1, [f], .answer [call] (.r .rclunk)⟩
            else ⟨c1, [f], .refuse .enotimpl⟩
          else fwd c1 [f] { op := .clunk, fid := f, user := r.user, args := t }
        | .tremove _ => fwd c1 [f] { op := .remove, fid := f, user := r.user, args := t }
        | .tstat _ => fwd c1 [f] { op := .stat, fid := f, user := r.user, args := t }
        | .twstat _ _ => fwd c1 [f] { op := .wstat, fid := f, user := r.user, args := t }
        | _ => ⟨c1, [f], .refuse .unknownfid⟩

/-- `Respond*`: a reply that does not fit the reply buffer (`msize` bytes) becomes the
    error "buffer too small" -/
def fitReply (c : Conn) (a : Ans) : Reply :=
  match a with
  | .e n k => .implErr n k
  | .r m => if (Spec.encode c.dotu 0 m).length ≤ c.msize.toNat then .r m else .err .packSmall

/-- which post-handler of `PostProcess`'s switch fires, given the request and the type of
    the reply it got -/
inductive PostKind where
  | auth (afid : UInt32)                                   -- authPost on Rauth
  | attach (fid : UInt32) (q : Qid)                        -- attachPost on Rattach
  | walk (f nf : UInt32) (names : List Bytes) (qs : List Qid)   -- walkPost on Rwalk
  | opened (f : UInt32)                                    -- openPost on Ropen
  | created (f : UInt32) (q : Qid)                         -- createPost on Rcreate
  | read (f : UInt32) (d : Bytes)                          -- readPost on Rread
  | release (f : UInt32)                                   -- clunkPost on Rclunk, removePost always
  | none
  deriving Repr, DecidableEq

def postKind : Msg → Reply → PostKind
  | .tauth afid _ _ _, .r (.rauth _) => .auth afid
  | .tattach fid _ _ _ _, .r (.rattach q) => .attach fid q
  | .twalk f nf names, .r (.rwalk qs) => .walk f nf names qs
  | .topen f _, .r (.ropen _ _) => .opened f
  | .tcreate f _ _ _ _, .r (.rcreate q _) => .created f q
  | .tread f _ _, .r (.rread d) => .read f d
  | .tclunk f, .r .rclunk => .release f
  | .tremove f, _ => .release f
  | _, _ => .none

/-- the type-specific post-handler (`PostProcess`'s switch) -/
def post (c : Conn) (t : Msg) (rep : Reply) : Conn × List UInt32 :=
  match postKind t rep with
  | .auth afid => ({ c with fids := incRef c.fids afid }, [])
  | .attach fid q =>
      ({ c with fids := incRef (modFid c.fids fid (fun x => { x with typ := q.typ })) fid }, [])
  | .walk f nf names qs =>
      -- only when req.Newfid was set, i.e. the walk was forwarded: then nf is in the table
      if qs.length != names.length then (c, [])
      else
        match lookup c.fids f, lookup c.fids nf with
        | some fr, some _ =>
          let ty := match qs.getLast? with
            | some q => q.typ
            | none => fr.typ
          let fs := modFid c.fids nf (fun x => { x with typ := ty })
          (if nf != f then { c with fids := incRef fs nf } else { c with fids := fs }, [])
        | _, _ => (c, [])
  | .opened f => ({ c with fids := modFid c.fids f (fun x => { x with opened := true }) }, [])
  | .created f q =>
      ({ c with fids := modFid c.fids f (fun x => { x with typ := q.typ, opened := true }) }, [])
  | .read f d =>
      ({ c with fids := modFid c.fids f (fun x =>
          if isDir x then { x with diroff := x.diroff + UInt64.ofNat (UInt32.ofNat d.length).toNat } else x) }, [])
  | .release f =>
      let (fs, d) := decRef c.fids f
      ({ c with fids := fs }, d)
  | .none => (c, [])

/-- one request, from `Process` to the end of `PostProcess` -/
def step (cfg : Cfg) (impl : Impl) (c : Conn) (t : Msg) : Conn × Obs :=
  let mid := pre cfg impl c t
  let rep : Reply := match mid.pre with
    | .refuse e => .err e
    | .answer _ a => fitReply mid.c a
  let calls : List Call := match mid.pre with
    | .refuse _ => []
    | .answer calls _ => calls
  -- post-handlers act only on requests that hold their fid (Process found it)
  let p := if mid.held.isEmpty then (mid.c, []) else post mid.c t rep
  let q := decRefs p.1.fids mid.held
  ({ p.1 with fids := q.1 }, { calls := calls, reply := rep, destroyed := p.2 ++ q.2 })

/-- what the receive loop does with the frame of a request: a frame longer than the
    connection's msize ends the connection before anything is executed (`none`);
    otherwise the request the framework sees is what `Unpack` yields in the connection's
    dialect (`Go.norm`: fields the dialect does not carry take Go's defaults). -/
def stepFrame (cfg : Cfg) (impl : Impl) (c : Conn) (t : Msg) : Option (Conn × Obs) :=
  if (Spec.encode c.dotu 0 t).length > c.msize.toNat then none
  else some (step cfg impl c (Go.norm c.dotu t))

/-- a history: requests with the implementation in force for each -/
def run (cfg : Cfg) (c : Conn) : List (Msg × Impl) → Conn × List Obs
  | [] => (c, [])
  | (t, impl) :: rest =>
    let (c1, o) := step cfg impl c t
    let (c2, os) := run cfg c1 rest
    (c2, o :: os)

/-! ### the reply on the wire -/

def ferrText : FErr → String × Nat
  | .unknownfid => ("unknown fid", 22) | .noauth => ("no authentication required", 22)
  | .inuse => ("fid already in use", 22) | .baduse => ("bad use of fid", 22)
  | .eopen => ("fid already opened", 22) | .enotdir => ("not a directory", 20)
  | .eperm => ("permission denied", 1) | .etoolarge => ("i/o count too large", 22)
  | .nouser => ("unknown user", 22) | .enotimpl => ("not implemented", 22)
  | .msizeSmall => ("msize too small", 22) | .packSmall => ("buffer too small", 22)
  | .badtype => ("unknown message type", 22)

/-- `RespondError`: the text is cut to what the reply buffer (msize bytes) can carry -/
def rerrorMsg (c : Conn) (ename : Bytes) (ecode : UInt32) : Msg :=
  let room := c.msize.toNat - 9 - (if c.dotu then 4 else 0)
  .rerror (ename.take room) ecode

def wireReply (c : Conn) (rep : Reply) : Msg :=
  match rep with
  | .r m => m
  | .implErr n k => rerrorMsg c n k
  | .err e => rerrorMsg c (ferrText e).1.toUTF8.toList (UInt32.ofNat (ferrText e).2)

def Conn.init (cfg : Cfg) : Conn := { msize := cfg.srvMsize, dotu := cfg.srvDotu }

end G9.Srv
