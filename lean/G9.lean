import G9.Prelude
import G9.Generated
import G9.Wire.Msg
import G9.Wire.Spec
import G9.Wire.Go
import G9.Driver.Text
import G9.Driver.Wire
