import G9.Prelude
import G9.Generated
import G9.Wire.Msg
import G9.Wire.Spec
import G9.Wire.Go
