package main

// lockfacts — the regenerated tie for C19.  A go/ast + go/types walk over /repo's non-test
// files that records, for every access to a field of a struct type of the package, which
// mutexes are certainly held at that point (a must-hold lock set computed per function body:
// x.Lock()/x.Unlock() calls and `defer x.Unlock()`, intersection at control-flow joins;
// function literals — goroutine bodies — start with the empty set).  It prints
// G9/GeneratedLocks.lean: one `Access` per field access.  The expectations (which field is
// guarded by which lock, which accesses are exempt and why) are hand-written in
// lean/G9/Locks.lean and the theorem that every access meets them is re-checked on every run.

import (
	"fmt"
	"go/ast"
	"go/importer"
	"go/parser"
	"go/token"
	"go/types"
	"io"
	"os"
	"path/filepath"
	"sort"
	"strings"
)

type heldLock struct {
	typ  string // struct type owning the mutex ("Conn"), or "var:<name>" for a package-level mutex
	base string // source text of the expression the lock was taken on
}

type access struct {
	fn, field, base string
	write            bool
	held             []heldLock
	file             string
	line             int
}

type lockWalker struct {
	fset *token.FileSet
	info *types.Info
	pkg  *types.Package
	fn   string
	out  *[]access
}

func exprText(e ast.Expr) string {
	switch x := e.(type) {
	case *ast.Ident:
		return x.Name
	case *ast.SelectorExpr:
		return exprText(x.X) + "." + x.Sel.Name
	case *ast.StarExpr:
		return exprText(x.X)
	case *ast.ParenExpr:
		return exprText(x.X)
	case *ast.IndexExpr:
		return exprText(x.X) + "[]"
	case *ast.CallExpr:
		return exprText(x.Fun) + "()"
	case *ast.TypeAssertExpr:
		return exprText(x.X)
	}
	return "?"
}

// namedStruct returns the name of the package-level struct type e has (through pointers), or "".
func (w *lockWalker) namedStruct(e ast.Expr) string {
	t := w.info.TypeOf(e)
	if t == nil {
		return ""
	}
	for {
		if p, ok := t.(*types.Pointer); ok {
			t = p.Elem()
			continue
		}
		break
	}
	n, ok := t.(*types.Named)
	if !ok || n.Obj().Pkg() != w.pkg {
		return ""
	}
	if _, ok := n.Underlying().(*types.Struct); !ok {
		return ""
	}
	return n.Obj().Name()
}

// lockCall recognises x.Lock(), x.Unlock(), x.RLock(), x.RUnlock().
func (w *lockWalker) lockCall(call *ast.CallExpr) (heldLock, string, bool) {
	sel, ok := call.Fun.(*ast.SelectorExpr)
	if !ok {
		return heldLock{}, "", false
	}
	switch sel.Sel.Name {
	case "Lock", "Unlock", "RLock", "RUnlock":
	default:
		return heldLock{}, "", false
	}
	if len(call.Args) != 0 {
		return heldLock{}, "", false
	}
	if t := w.namedStruct(sel.X); t != "" {
		return heldLock{t, exprText(sel.X)}, sel.Sel.Name, true
	}
	// a package-level sync.Mutex / sync.RWMutex
	if id, ok := sel.X.(*ast.Ident); ok {
		if tv := w.info.TypeOf(id); tv != nil && strings.HasPrefix(tv.String(), "sync.") {
			return heldLock{"var:" + id.Name, id.Name}, sel.Sel.Name, true
		}
	}
	return heldLock{}, "", false
}

type lockSet []heldLock

func (s lockSet) with(l heldLock) lockSet {
	for _, x := range s {
		if x == l {
			return s
		}
	}
	return append(append(lockSet(nil), s...), l)
}

func (s lockSet) without(l heldLock) lockSet {
	var r lockSet
	for _, x := range s {
		if x != l {
			r = append(r, x)
		}
	}
	return r
}

func meet(a, b lockSet) lockSet {
	var r lockSet
	for _, x := range a {
		for _, y := range b {
			if x == y {
				r = append(r, x)
			}
		}
	}
	return r
}

// record notes every field access inside e (not descending into function literals, which are
// walked on their own with an empty lock set).
func (w *lockWalker) record(e ast.Node, held lockSet, write bool) {
	if e == nil {
		return
	}
	ast.Inspect(e, func(n ast.Node) bool {
		switch x := n.(type) {
		case *ast.FuncLit:
			w.body(w.fn+"$lit", x.Body)
			return false
		case *ast.SelectorExpr:
			if sel, ok := w.info.Selections[x]; ok && sel.Kind() == types.FieldVal {
				if t := w.namedStruct(x.X); t != "" {
					p := w.fset.Position(x.Pos())
					*w.out = append(*w.out, access{fn: w.fn, field: t + "." + x.Sel.Name, base: exprText(x.X), write: write,
						held: append([]heldLock(nil), held...), file: filepath.Base(p.Filename), line: p.Line})
				}
			}
			// the base expression is read
			w.record(x.X, held, false)
			return false
		}
		return true
	})
}

// lhs records the target of an assignment: the outermost field (or the map/slice it indexes) is written.
func (w *lockWalker) lhs(e ast.Expr, held lockSet) {
	switch x := e.(type) {
	case *ast.IndexExpr:
		w.lhs(x.X, held)
		w.record(x.Index, held, false)
	case *ast.StarExpr:
		w.lhs(x.X, held)
	case *ast.ParenExpr:
		w.lhs(x.X, held)
	case *ast.SelectorExpr:
		if sel, ok := w.info.Selections[x]; ok && sel.Kind() == types.FieldVal {
			if t := w.namedStruct(x.X); t != "" {
				p := w.fset.Position(x.Pos())
				*w.out = append(*w.out, access{fn: w.fn, field: t + "." + x.Sel.Name, base: exprText(x.X), write: true,
					held: append([]heldLock(nil), held...), file: filepath.Base(p.Filename), line: p.Line})
			}
		}
		w.record(x.X, held, false)
	default:
		w.record(e, held, false)
	}
}

func terminates(b *ast.BlockStmt) bool {
	if b == nil || len(b.List) == 0 {
		return false
	}
	switch s := b.List[len(b.List)-1].(type) {
	case *ast.ReturnStmt:
		return true
	case *ast.BranchStmt:
		return s.Tok == token.BREAK || s.Tok == token.CONTINUE || s.Tok == token.GOTO
	case *ast.ExprStmt:
		if c, ok := s.X.(*ast.CallExpr); ok {
			if id, ok := c.Fun.(*ast.Ident); ok && id.Name == "panic" {
				return true
			}
		}
	}
	return false
}

func (w *lockWalker) block(b *ast.BlockStmt, held lockSet) lockSet {
	if b == nil {
		return held
	}
	for _, s := range b.List {
		held = w.stmt(s, held)
	}
	return held
}

func (w *lockWalker) stmt(s ast.Stmt, held lockSet) lockSet {
	switch x := s.(type) {
	case *ast.ExprStmt:
		if c, ok := x.X.(*ast.CallExpr); ok {
			if l, op, ok := w.lockCall(c); ok {
				if op == "Lock" || op == "RLock" {
					return held.with(l)
				}
				return held.without(l)
			}
			// delete(m, k) writes m
			if id, ok := c.Fun.(*ast.Ident); ok && id.Name == "delete" && len(c.Args) == 2 {
				w.lhs(c.Args[0], held)
				w.record(c.Args[1], held, false)
				return held
			}
		}
		w.record(x.X, held, false)
	case *ast.DeferStmt:
		if _, op, ok := w.lockCall(x.Call); ok && (op == "Unlock" || op == "RUnlock") {
			return held // held until the function returns
		}
		w.record(x.Call, held, false)
	case *ast.GoStmt:
		w.record(x.Call, held, false)
	case *ast.AssignStmt:
		for _, r := range x.Rhs {
			w.record(r, held, false)
		}
		for _, l := range x.Lhs {
			w.lhs(l, held)
		}
	case *ast.IncDecStmt:
		w.lhs(x.X, held)
	case *ast.SendStmt:
		w.record(x.Chan, held, false)
		w.record(x.Value, held, false)
	case *ast.ReturnStmt:
		for _, r := range x.Results {
			w.record(r, held, false)
		}
	case *ast.DeclStmt:
		w.record(x.Decl, held, false)
	case *ast.BlockStmt:
		return w.block(x, held)
	case *ast.LabeledStmt:
		return w.stmt(x.Stmt, held)
	case *ast.IfStmt:
		if x.Init != nil {
			held = w.stmt(x.Init, held)
		}
		w.record(x.Cond, held, false)
		a := w.block(x.Body, held)
		b := held
		elseTerm := false
		if x.Else != nil {
			b = w.stmt(x.Else, held)
			if eb, ok := x.Else.(*ast.BlockStmt); ok {
				elseTerm = terminates(eb)
			}
		}
		switch {
		case terminates(x.Body) && elseTerm:
			return held
		case terminates(x.Body):
			return b
		case elseTerm:
			return a
		}
		return meet(a, b)
	case *ast.ForStmt:
		if x.Init != nil {
			held = w.stmt(x.Init, held)
		}
		w.record(x.Cond, held, false)
		after := w.block(x.Body, held)
		if x.Post != nil {
			w.stmt(x.Post, after)
		}
		return meet(held, after)
	case *ast.RangeStmt:
		w.record(x.X, held, false)
		after := w.block(x.Body, held)
		return meet(held, after)
	case *ast.SwitchStmt:
		if x.Init != nil {
			held = w.stmt(x.Init, held)
		}
		w.record(x.Tag, held, false)
		return w.clauses(x.Body, held)
	case *ast.TypeSwitchStmt:
		if x.Init != nil {
			held = w.stmt(x.Init, held)
		}
		w.stmt(x.Assign, held)
		return w.clauses(x.Body, held)
	case *ast.SelectStmt:
		return w.clauses(x.Body, held)
	}
	return held
}

func (w *lockWalker) clauses(b *ast.BlockStmt, held lockSet) lockSet {
	res := held
	for _, c := range b.List {
		var body []ast.Stmt
		h := held
		switch cc := c.(type) {
		case *ast.CaseClause:
			for _, e := range cc.List {
				w.record(e, held, false)
			}
			body = cc.Body
		case *ast.CommClause:
			if cc.Comm != nil {
				h = w.stmt(cc.Comm, held)
			}
			body = cc.Body
		}
		blk := &ast.BlockStmt{List: body}
		out := w.block(blk, h)
		if !terminates(blk) {
			res = meet(res, out)
		}
	}
	return res
}

func (w *lockWalker) body(name string, b *ast.BlockStmt) {
	saved := w.fn
	w.fn = name
	w.block(b, nil)
	w.fn = saved
}

func lockFacts(dir string, out io.Writer) {
	fset := token.NewFileSet()
	ents, err := os.ReadDir(dir)
	if err != nil {
		fmt.Fprintln(os.Stderr, err)
		os.Exit(1)
	}
	var files []*ast.File
	for _, e := range ents {
		n := e.Name()
		if !strings.HasSuffix(n, ".go") || strings.HasSuffix(n, "_test.go") || strings.HasPrefix(n, "verif_") {
			continue
		}
		f, err := parser.ParseFile(fset, filepath.Join(dir, n), nil, parser.ParseComments)
		if err != nil {
			fmt.Fprintln(os.Stderr, err)
			os.Exit(1)
		}
		// honour build constraints the cheap way: skip files for other operating systems
		skip := false
		for _, cg := range f.Comments {
			for _, c := range cg.List {
				if strings.HasPrefix(c.Text, "//go:build") && (strings.Contains(c.Text, "windows") || strings.Contains(c.Text, "plan9")) &&
					!strings.Contains(c.Text, "!windows") && !strings.Contains(c.Text, "!plan9") {
					skip = true
				}
			}
		}
		if !skip {
			files = append(files, f)
		}
	}
	info := &types.Info{Types: map[ast.Expr]types.TypeAndValue{}, Selections: map[*ast.SelectorExpr]*types.Selection{},
		Uses: map[*ast.Ident]types.Object{}, Defs: map[*ast.Ident]types.Object{}}
	conf := types.Config{Importer: importer.ForCompiler(fset, "source", nil), Error: func(error) {}}
	pkg, _ := conf.Check("github.com/rminnich/go9p", fset, files, info)
	var acc []access
	w := &lockWalker{fset: fset, info: info, pkg: pkg, out: &acc}
	for _, f := range files {
		for _, d := range f.Decls {
			fd, ok := d.(*ast.FuncDecl)
			if !ok || fd.Body == nil {
				continue
			}
			name := fd.Name.Name
			if fd.Recv != nil && len(fd.Recv.List) == 1 {
				name = strings.TrimPrefix(exprText(fd.Recv.List[0].Type), "*") + "." + name
			}
			w.body(name, fd.Body)
		}
	}
	sort.SliceStable(acc, func(i, j int) bool {
		if acc[i].file != acc[j].file {
			return acc[i].file < acc[j].file
		}
		return acc[i].line < acc[j].line
	})
	p := func(f string, a ...interface{}) { fmt.Fprintf(out, f+"\n", a...) }
	p("/- GENERATED by /verif/extract -lockfacts from /repo's working tree on every run. Do not edit. -/")
	p("namespace G9.GeneratedLocks")
	p("structure Held where")
	p("  typ : String")
	p("  base : String")
	p("  deriving Repr, DecidableEq")
	p("structure Access where")
	p("  fn : String")
	p("  field : String")
	p("  base : String")
	p("  write : Bool")
	p("  held : List Held")
	p("  file : String")
	p("  line : Nat")
	p("  deriving Repr")
	// only struct types that own a mutex, or whose fields a mutex of another type is meant to guard, matter;
	// the expectations decide which — everything is emitted, grouped by file to keep the terms small
	byFile := map[string][]access{}
	var fnames []string
	for _, a := range acc {
		if _, ok := byFile[a.file]; !ok {
			fnames = append(fnames, a.file)
		}
		byFile[a.file] = append(byFile[a.file], a)
	}
	var defs []string
	for _, fn := range fnames {
		def := "acc_" + strings.NewReplacer(".", "_", "-", "_").Replace(fn)
		defs = append(defs, def)
		p("def %s : List Access := [", def)
		for i, a := range byFile[fn] {
			var hs []string
			for _, h := range a.held {
				hs = append(hs, fmt.Sprintf("⟨%q, %q⟩", h.typ, h.base))
			}
			sep := ","
			if i == len(byFile[fn])-1 {
				sep = ""
			}
			p("  { fn := %q, field := %q, base := %q, write := %v, held := [%s], file := %q, line := %d }%s",
				a.fn, a.field, a.base, a.write, strings.Join(hs, ", "), a.file, a.line, sep)
		}
		p("]")
	}
	p("def files : List (String × List Access) := [%s]", func() string {
		var xs []string
		for i, fn := range fnames {
			xs = append(xs, fmt.Sprintf("(%q, %s)", fn, defs[i]))
		}
		return strings.Join(xs, ", ")
	}())
	p("end G9.GeneratedLocks")
}
