package main

import (
	"fmt"
	"io"
)

// lockFacts is filled in by the C19 work (go/ast walk of /repo).
func lockFacts(dir string, out io.Writer) { fmt.Fprintln(out, "-- lock facts: see lockfacts.go") }
