//go:build verif

package witness

import (
	"net"
	"os"
	"path/filepath"
	"testing"
	"time"

	g "github.com/rminnich/go9p"
)

func openDescriptors(path string) int {
	ents, _ := os.ReadDir("/proc/self/fd")
	n := 0
	for _, e := range ents {
		if l, err := os.Readlink(filepath.Join("/proc/self/fd", e.Name())); err == nil && l == path {
			n++
		}
	}
	return n
}

// F-31: a Topen is executing (it holds its fid) when the client disconnects. Conn.close reported the
// fid destroyed at once — Ufs closed nothing, there was no file yet — and the Topen then opened the
// file on a fid that was already destroyed: nobody closes it (only the garbage collector's finalizer
// will). The file server must be told last, when the request has let go of the fid.
func TestF31_OpenExecutingAtDisconnectLeavesTheFileOpen(t *testing.T) {
	_, root := tree(t)
	u := new(g.Ufs)
	u.Root = root
	u.Msize = 8192
	if !u.Start(u) {
		t.Fatal("ufs start")
	}
	a, c := net.Pipe()
	u.NewConn(conn{a})
	uname := g.OsUsers.Uid2User(os.Getuid()).Name()
	version(t, c, 8192, "9P2000")
	if r := rpc(t, c, false, 1, func(fc *g.Fcall) error {
		return g.PackTattach(fc, 0, g.NOFID, uname, "", uint32(os.Getuid()), false)
	}); r.Type != g.Rattach {
		t.Fatalf("attach: %v", r)
	}
	if r := rpc(t, c, false, 2, func(fc *g.Fcall) error { return g.PackTwalk(fc, 0, 1, []string{"d", "file"}) }); r.Type != g.Rwalk {
		t.Fatalf("walk: %v", r)
	}
	reached, release, closed, ended := make(chan bool), make(chan bool), make(chan bool), make(chan bool)
	g.VerifSetHook(func(p string, args ...interface{}) {
		switch p {
		case "process.fid":
			if r, ok := args[0].(*g.SrvReq); ok && r.VerifTag() == 7 {
				close(reached)
				<-release
			}
		case "process.end":
			if r, ok := args[0].(*g.SrvReq); ok && r.VerifTag() == 7 {
				close(ended)
			}
		case "close.end":
			close(closed)
		}
	})
	defer g.VerifSetHook(nil)
	fc := g.NewFcall(8192)
	g.PackTopen(fc, 1, g.OREAD)
	send(t, c, fc, 7)
	<-reached
	c.Close()
	<-closed
	close(release)
	<-ended
	time.Sleep(20 * time.Millisecond)
	if n := openDescriptors(filepath.Join(root, "d", "file")); n != 0 {
		t.Fatalf("%d descriptor(s) on the file still open after the disconnect and the end of the request", n)
	}
}
