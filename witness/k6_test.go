//go:build verif

package witness

import (
	"testing"
	"time"

	g "github.com/rminnich/go9p"
)

// F-33 (was K-6): three requests under one shared tag, the second cancelled by a Tflush while it is
// queued behind the first. Its Respond deleted the tag's whole chain from the table, so the third
// started at once — while the first was still executing — and was answered before it.
func TestF33_SharedTagAfterFlushOfQueuedMember(t *testing.T) {
	o := &ops{gate: map[string]chan bool{"stat": make(chan bool)}}
	c, _ := serve(t, o, 8192, false)
	version(t, c, 8192, "9P2000")
	attach(t, c, 1)
	mk := func(pack func(fc *g.Fcall) error) *g.Fcall { fc := g.NewFcall(8192); pack(fc); return fc }
	send(t, c, mk(func(fc *g.Fcall) error { return g.PackTstat(fc, 1) }), 7) // T1: parks in Stat
	time.Sleep(30 * time.Millisecond)
	send(t, c, mk(func(fc *g.Fcall) error { return g.PackTclunk(fc, 99) }), 7) // T2: queued behind T1
	time.Sleep(30 * time.Millisecond)
	send(t, c, mk(func(fc *g.Fcall) error { return g.PackTflush(fc, 7) }), 9) // F2: cancels T2
	r := recv(t, c, false)
	t.Logf("first frame: type %d tag %d", r.Type, r.Tag)
	send(t, c, mk(func(fc *g.Fcall) error { return g.PackTwstat(fc, 1, &g.Dir{}, false) }), 7) // T3
	time.Sleep(100 * time.Millisecond)
	o.mu.Lock()
	calls := append([]string{}, o.calls...)
	o.mu.Unlock()
	t.Logf("implementation calls while T1 is parked: %v", calls)
	for _, cl := range calls {
		if cl == "wstat" {
			t.Errorf("T3 (tag 7) reached the implementation while T1 (tag 7) is still executing")
		}
	}
	close(o.gate["stat"])
	for i := 0; i < 2; i++ {
		c.SetReadDeadline(time.Now().Add(time.Second))
		r := recv(t, c, false)
		t.Logf("frame: type %d tag %d", r.Type, r.Tag)
	}
}
