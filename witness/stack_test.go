package witness

import (
	"runtime"
	"strings"
)

func stuckInRespond() int {
	buf := make([]byte, 1<<20)
	n := runtime.Stack(buf, true)
	cnt := 0
	for _, g := range strings.Split(string(buf[:n]), "\n\n") {
		if strings.Contains(g, "(*SrvReq).Respond") && strings.Contains(g, "chan send") {
			cnt++
		}
	}
	return cnt
}
