// Witness tests: each demonstrates one genuine defect of the pinned go9p tree. They fail
// (or crash the test process) before the corresponding "fix:" commit in /repo and pass
// after it. Run: cd /verif/witness && GOFLAGS=-mod=mod GOPROXY=off go test -run <name> .
package witness

import (
	"encoding/binary"
	"io"
	"net"
	"sync"
	"testing"
	"time"

	g "github.com/rminnich/go9p"
)

// scripted file server: records calls, answers from a function
type ops struct {
	mu    sync.Mutex
	calls []string
	gate  map[string]chan bool // op name -> block until released
	dirq  bool                 // attach answers with a directory qid
}

func (o *ops) log(s string) { o.mu.Lock(); o.calls = append(o.calls, s); o.mu.Unlock() }
func (o *ops) wait(s string) {
	o.mu.Lock()
	ch := o.gate[s]
	o.mu.Unlock()
	if ch != nil {
		<-ch
	}
}
func (o *ops) Attach(r *g.SrvReq) {
	o.log("attach")
	r.RespondRattach(&g.Qid{Type: g.QTDIR, Path: 1})
}
func (o *ops) Walk(r *g.SrvReq) {
	o.log("walk")
	o.wait("walk")
	qs := make([]g.Qid, 0)
	for i, n := range r.Tc.Wname {
		if n == "missing" {
			if i == 0 {
				r.RespondError(&g.Error{Err: "not found", Errornum: 2})
				return
			}
			break
		}
		t := uint8(g.QTDIR)
		if n == "file" {
			t = 0
		}
		qs = append(qs, g.Qid{Type: t, Path: uint64(10 + i)})
	}
	r.RespondRwalk(qs)
}
func (o *ops) Open(r *g.SrvReq)   { o.log("open"); r.RespondRopen(&g.Qid{Type: r.Fid.Type}, 0) }
func (o *ops) Create(r *g.SrvReq) { o.log("create"); r.RespondRcreate(&g.Qid{}, 0) }
func (o *ops) Read(r *g.SrvReq) {
	o.log("read")
	o.wait("read")
	r.RespondRread([]byte("data"))
}
func (o *ops) Write(r *g.SrvReq)  { o.log("write"); r.RespondRwrite(r.Tc.Count) }
func (o *ops) Clunk(r *g.SrvReq)  { o.log("clunk"); r.RespondRclunk() }
func (o *ops) Remove(r *g.SrvReq) { o.log("remove"); r.RespondRremove() }
func (o *ops) Stat(r *g.SrvReq) {
	o.log("stat")
	o.wait("stat")
	r.RespondRstat(&g.Dir{Name: "x"})
}
func (o *ops) Wstat(r *g.SrvReq) { o.log("wstat"); r.RespondRwstat() }

type pipeAddr struct{}

func (pipeAddr) Network() string { return "pipe" }
func (pipeAddr) String() string  { return "pipe" }

type conn struct{ net.Conn }

func (conn) RemoteAddr() net.Addr { return pipeAddr{} }

func serve(t *testing.T, o *ops, msize uint32, dotu bool) (net.Conn, *g.Srv) {
	srv := &g.Srv{Msize: msize, Dotu: dotu}
	if !srv.Start(o) {
		t.Fatal("Start")
	}
	a, b := net.Pipe()
	srv.NewConn(conn{a})
	return b, srv
}

func send(t *testing.T, c net.Conn, fc *g.Fcall, tag uint16) {
	g.SetTag(fc, tag)
	if _, err := c.Write(fc.Pkt); err != nil {
		t.Fatal(err)
	}
}

func recv(t *testing.T, c net.Conn, dotu bool) *g.Fcall {
	c.SetReadDeadline(time.Now().Add(5 * time.Second))
	hdr := make([]byte, 4)
	if _, err := io.ReadFull(c, hdr); err != nil {
		t.Fatalf("no reply: %v", err)
	}
	n := binary.LittleEndian.Uint32(hdr)
	buf := make([]byte, n)
	copy(buf, hdr)
	if _, err := io.ReadFull(c, buf[4:]); err != nil {
		t.Fatal(err)
	}
	fc, _, err := g.Unpack(buf, dotu)
	if err != nil {
		t.Fatalf("reply does not decode: %v % x", err, buf)
	}
	return fc
}

func rpc(t *testing.T, c net.Conn, dotu bool, tag uint16, pack func(fc *g.Fcall) error) *g.Fcall {
	fc := g.NewFcall(8192)
	if err := pack(fc); err != nil {
		t.Fatal(err)
	}
	send(t, c, fc, tag)
	return recv(t, c, dotu)
}

func version(t *testing.T, c net.Conn, msize uint32, ver string) *g.Fcall {
	return rpc(t, c, false, g.NOTAG, func(fc *g.Fcall) error { return g.PackTversion(fc, msize, ver) })
}

func attach(t *testing.T, c net.Conn, fid uint32) {
	r := rpc(t, c, false, 1, func(fc *g.Fcall) error { return g.PackTattach(fc, fid, g.NOFID, "u", "", 0, false) })
	if r.Type != g.Rattach {
		t.Fatalf("attach: %v", r)
	}
}
