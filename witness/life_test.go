//go:build verif

package witness

import (
	"fmt"
	"net"
	"sync"
	"testing"
	"time"

	g "github.com/rminnich/go9p"
)

// parkAt installs a hook that parks the first goroutine reaching `point` for a request
// with tag `tag` until release is closed; reached is closed when it got there.
func parkAt(point string, tag uint16) (reached, release chan bool) {
	reached, release = make(chan bool), make(chan bool)
	done := false
	g.VerifSetHook(func(p string, args ...interface{}) {
		if p != point || len(args) == 0 {
			return
		}
		r, ok := args[0].(*g.SrvReq)
		if !ok || r.VerifTag() != tag || done {
			return
		}
		done = true
		close(reached)
		<-release
	})
	return
}

// K-1/F-17: a Tflush looked up while the target sits between two steps of Respond must not
// be answered before the target's reply.
func TestF17_RflushOvertakesReply(t *testing.T) {
	for _, point := range []string{"respond.mark", "respond.unlink", "respond.post", "respond.queued"} {
		o := &ops{gate: map[string]chan bool{}}
		c, _ := serve(t, o, 8192, false)
		version(t, c, 8192, "9P2000")
		attach(t, c, 1)
		reached, release := parkAt(point, 7)
		fc := g.NewFcall(8192)
		g.PackTstat(fc, 1)
		send(t, c, fc, 7)
		<-reached
		fl := g.NewFcall(8192)
		g.PackTflush(fl, 7)
		send(t, c, fl, 8)
		time.Sleep(50 * time.Millisecond)
		close(release)
		var order []string
		for i := 0; i < 2; i++ {
			r := recv(t, c, false)
			order = append(order, fmt.Sprintf("%d/%d", r.Type, r.Tag))
		}
		g.VerifSetHook(nil)
		if order[0] != fmt.Sprintf("%d/7", g.Rstat) || order[1] != fmt.Sprintf("%d/8", g.Rflush) {
			t.Fatalf("target parked at %s: wire order %v, want Rstat/7 then Rflush/8", point, order)
		}
		c.Close()
	}
}

// K-1b/F-17: a request reusing the tag while its predecessor sits between two steps of
// Respond must not be answered first.
func TestF17_SharedTagReorder(t *testing.T) {
	for _, point := range []string{"respond.mark", "respond.unlink", "respond.post", "respond.queued"} {
		o := &ops{gate: map[string]chan bool{}}
		c, _ := serve(t, o, 8192, false)
		version(t, c, 8192, "9P2000")
		attach(t, c, 1)
		reached, release := parkAt(point, 5)
		fc := g.NewFcall(8192)
		g.PackTstat(fc, 1)
		send(t, c, fc, 5)
		<-reached
		f2 := g.NewFcall(8192)
		g.PackTread(f2, 1, 0, 4)
		// fid 1 is not open: the answer is an Rerror, which is all we need to tell them apart
		send(t, c, f2, 5)
		time.Sleep(50 * time.Millisecond)
		close(release)
		var order []uint8
		for i := 0; i < 2; i++ {
			r := recv(t, c, false)
			order = append(order, r.Type)
		}
		g.VerifSetHook(nil)
		if order[0] != g.Rstat {
			t.Fatalf("predecessor parked at %s: replies under tag 5 arrived as %v, want Rstat first", point, order)
		}
		c.Close()
	}
}

type twice struct{ *ops }

func (o twice) Stat(r *g.SrvReq) {
	r.RespondRstat(&g.Dir{Name: "first"})
	r.RespondRstat(&g.Dir{Name: "second-answer"})
	close(o.gate["answered"])
}

// F-24: a second answer to an already answered request must not produce a second reply — nor
// rewrite the first one while the writer is sending it.
func TestF24_SecondAnswerRewritesReply(t *testing.T) {
	o := twice{&ops{gate: map[string]chan bool{"answered": make(chan bool)}}}
	srv := &g.Srv{Msize: 8192}
	if !srv.Start(o) {
		t.Fatal("Start")
	}
	a, c := net.Pipe()
	srv.NewConn(conn{a})
	version(t, c, 8192, "9P2000")
	attach(t, c, 1)
	// hold the writer between taking the reply and stamping its tag
	g.VerifSetHook(func(p string, args ...interface{}) {
		if p == "send.take" {
			if r, ok := args[0].(*g.SrvReq); ok && r.VerifTag() == 7 {
				<-o.gate["answered"]
			}
		}
	})
	defer g.VerifSetHook(nil)
	fc := g.NewFcall(8192)
	g.PackTstat(fc, 1)
	send(t, c, fc, 7)
	r := recv(t, c, false)
	if r.Type != g.Rstat || r.Tag != 7 || r.Dir.Name != "first" {
		t.Fatalf("reply to the request: type %d tag %d name %q, want the first answer (Rstat, tag 7, name \"first\")", r.Type, r.Tag, r.Dir.Name)
	}
}

type slowClunk struct {
	*ops
	destroyed map[uint32]int
}

func (o slowClunk) Clunk(r *g.SrvReq) {
	close(o.gate["entered"])
	<-o.gate["clunk"]
	r.RespondRclunk()
	close(o.gate["answered"])
}
func (o slowClunk) FidDestroy(f *g.SrvFid) {
	o.mu.Lock()
	o.destroyed[g.VerifFidNo(f)]++
	o.mu.Unlock()
}

// K-4a/F-25: a Tclunk executing when the client disconnects: the fid is reported destroyed by
// Conn.close and again when the clunk completes.
func TestF25_ClunkInFlightAtDisconnectDestroysTwice(t *testing.T) {
	o := slowClunk{&ops{gate: map[string]chan bool{"entered": make(chan bool), "clunk": make(chan bool), "answered": make(chan bool)}}, map[uint32]int{}}
	srv := &g.Srv{Msize: 8192}
	if !srv.Start(o) {
		t.Fatal("Start")
	}
	a, c := net.Pipe()
	srv.NewConn(conn{a})
	version(t, c, 8192, "9P2000")
	attach(t, c, 1)
	fc := g.NewFcall(8192)
	g.PackTclunk(fc, 1)
	send(t, c, fc, 7)
	<-o.gate["entered"]
	c.Close()
	time.Sleep(50 * time.Millisecond)
	close(o.gate["clunk"])
	<-o.gate["answered"]
	time.Sleep(50 * time.Millisecond)
	o.mu.Lock()
	n := o.destroyed[1]
	o.mu.Unlock()
	if n != 1 {
		t.Fatalf("fid 1 reported destroyed %d times, want once", n)
	}
}

type countDestroy struct {
	*ops
	destroyed map[uint32]int
}

func (o countDestroy) FidDestroy(f *g.SrvFid) {
	o.mu.Lock()
	o.destroyed[g.VerifFidNo(f)]++
	o.mu.Unlock()
}

func (o countDestroy) count(fid uint32) int {
	o.mu.Lock()
	defer o.mu.Unlock()
	return o.destroyed[fid]
}

// F-29: the client disconnects while the request that created a fid sits between retain's test of
// the connection and its increment: Conn.close skips the fid (still pending), retain then keeps
// it — on a connection that is gone, so nobody ever clunks it and it is never reported destroyed.
func TestF29_DisconnectInsideRetainLeaksTheFid(t *testing.T) {
	o := countDestroy{&ops{gate: map[string]chan bool{}}, map[uint32]int{}}
	srv := &g.Srv{Msize: 8192}
	if !srv.Start(o) {
		t.Fatal("Start")
	}
	a, c := net.Pipe()
	srv.NewConn(conn{a})
	version(t, c, 8192, "9P2000")
	attach(t, c, 1)
	reached, release, closed := make(chan bool), make(chan bool), make(chan bool)
	g.VerifSetHook(func(p string, args ...interface{}) {
		switch p {
		case "fid.retain":
			if f, ok := args[1].(*g.SrvFid); ok && g.VerifFidNo(f) == 2 {
				close(reached)
				<-release
			}
		case "close.end":
			close(closed)
		}
	})
	defer g.VerifSetHook(nil)
	fc := g.NewFcall(8192)
	g.PackTwalk(fc, 1, 2, nil)
	send(t, c, fc, 7)
	<-reached
	c.Close()
	<-closed
	close(release)
	time.Sleep(100 * time.Millisecond)
	if n := o.count(2); n != 1 {
		t.Fatalf("fid 2, created while the client disconnected, reported destroyed %d times, want once", n)
	}
	if n := o.count(1); n != 1 {
		t.Fatalf("fid 1 reported destroyed %d times, want once", n)
	}
}

// F-30: DecRef removes the table entry by number. A request that uses a fid while its Tclunk is
// between dropping the last reference and deleting the entry takes a reference on the dying fid;
// when that request ends, its DecRef deletes whatever now lives under the number — a fid the
// client has created since. That fid is then unknown to the client and never reported destroyed.
func TestF30_ReleaseOfADyingFidRemovesItsSuccessor(t *testing.T) {
	o := countDestroy{&ops{gate: map[string]chan bool{}}, map[uint32]int{}}
	srv := &g.Srv{Msize: 8192}
	if !srv.Start(o) {
		t.Fatal("Start")
	}
	a, c := net.Pipe()
	srv.NewConn(conn{a})
	version(t, c, 8192, "9P2000")
	attach(t, c, 1)
	if r := rpc(t, c, false, 2, func(fc *g.Fcall) error { return g.PackTwalk(fc, 1, 5, nil) }); r.Type != g.Rwalk {
		t.Fatalf("walk: %v", r)
	}
	reached := []chan bool{make(chan bool), make(chan bool)}
	release := []chan bool{make(chan bool), make(chan bool)}
	var mu sync.Mutex
	arrivals := 0
	g.VerifSetHook(func(p string, args ...interface{}) {
		if p != "fid.dec.zero" {
			return
		}
		f, ok := args[1].(*g.SrvFid)
		if !ok || g.VerifFidNo(f) != 5 {
			return
		}
		mu.Lock()
		i := arrivals
		arrivals++
		mu.Unlock()
		if i < 2 {
			close(reached[i])
			<-release[i]
		}
	})
	defer g.VerifSetHook(nil)
	fc := g.NewFcall(8192)
	g.PackTclunk(fc, 5)
	send(t, c, fc, 7)
	<-reached[0] // the clunk has dropped the last reference; the entry is still in the table
	fs := g.NewFcall(8192)
	g.PackTstat(fs, 5)
	send(t, c, fs, 8)
	select {
	case <-reached[1]: // the stat found the dying fid, used it and has dropped its reference
	case <-time.After(2 * time.Second):
		t.Skip("the stat did not find the dying fid: nothing to show")
	}
	close(release[0])
	if r := recv(t, c, false); r.Type != g.Rclunk {
		t.Fatalf("clunk: %v", r)
	}
	time.Sleep(50 * time.Millisecond)
	// the number is free again: the client makes a new fid 5
	if r := rpc(t, c, false, 9, func(fc *g.Fcall) error { return g.PackTwalk(fc, 1, 5, nil) }); r.Type != g.Rwalk {
		t.Fatalf("second walk to fid 5: %v", r)
	}
	close(release[1])
	if r := recv(t, c, false); r.Type != g.Rstat {
		t.Fatalf("stat on the dying fid: %v", r)
	}
	time.Sleep(50 * time.Millisecond)
	r := rpc(t, c, false, 10, func(fc *g.Fcall) error { return g.PackTstat(fc, 5) })
	if r.Type != g.Rstat {
		t.Errorf("Tstat on the fid just created by a successful Twalk: %d %q, want Rstat", r.Type, r.Error)
	}
	c.Close()
	time.Sleep(100 * time.Millisecond)
	if n := o.count(5); n != 2 {
		t.Errorf("fid number 5 (two fids in turn) reported destroyed %d times, want twice", n)
	}
}

// F-32: a Tflush that names its own tag. The lookup finds the Tflush itself in the tag table, chains
// it to itself and waits for "the flushed request" — itself — to be answered: no Rflush ever, and the
// tag stays occupied. (Found by the thorough tier of C04/C05/C12: the sequential histories number
// their tags 1, 2, 3, … and draw the old tag from a small set.)
func TestF32_TflushOfItsOwnTagIsNeverAnswered(t *testing.T) {
	o := &ops{gate: map[string]chan bool{}}
	c, _ := serve(t, o, 8192, false)
	version(t, c, 8192, "9P2000")
	attach(t, c, 1)
	fl := g.NewFcall(8192)
	g.PackTflush(fl, 7)
	send(t, c, fl, 7)
	c.SetReadDeadline(time.Now().Add(2 * time.Second))
	r := recv(t, c, false)
	if r.Type != g.Rflush || r.Tag != 7 {
		t.Fatalf("Tflush(tag 7, oldtag 7): got type %d tag %d, want Rflush/7", r.Type, r.Tag)
	}
	// and the tag is free again
	if r := rpc(t, c, false, 7, func(fc *g.Fcall) error { return g.PackTstat(fc, 1) }); r.Type != g.Rstat {
		t.Fatalf("tag 7 reused after the Rflush: %v", r)
	}
}
