//go:build verif

package witness

import (
	"encoding/binary"
	"net"
	"sync"
	"testing"
	"time"

	g "github.com/rminnich/go9p"
)

// a scripted 9P peer: answers Tversion, then hands every request frame to f
func peer(t *testing.T, b net.Conn, msize uint32, f func(frame []byte)) {
	go func() {
		hdr := make([]byte, 4)
		for {
			if _, err := readFull(b, hdr); err != nil {
				return
			}
			n := binary.LittleEndian.Uint32(hdr)
			buf := make([]byte, n)
			copy(buf, hdr)
			if _, err := readFull(b, buf[4:]); err != nil {
				return
			}
			if buf[4] == g.Tversion {
				rv := g.NewFcall(64)
				g.PackRversion(rv, msize, "9P2000")
				g.SetTag(rv, binary.LittleEndian.Uint16(buf[5:]))
				b.Write(rv.Pkt)
				continue
			}
			f(buf)
		}
	}()
}

func readFull(c net.Conn, b []byte) (int, error) {
	n := 0
	for n < len(b) {
		k, err := c.Read(b[n:])
		if err != nil {
			return n, err
		}
		n += k
	}
	return n, nil
}

func callers(c *g.Clnt, k int) (*sync.WaitGroup, []error) {
	var wg sync.WaitGroup
	errs := make([]error, k)
	for i := 0; i < k; i++ {
		wg.Add(1)
		go func(i int) {
			defer wg.Done()
			tc := c.NewFcall()
			g.PackTstat(tc, uint32(i))
			_, errs[i] = c.Rpc(tc)
		}(i)
	}
	return &wg, errs
}

func waitOrHang(wg *sync.WaitGroup, d time.Duration) bool {
	done := make(chan bool)
	go func() { wg.Wait(); close(done) }()
	select {
	case <-done:
		return true
	case <-time.After(d):
		return false
	}
}

// F-12a: the error fan-out reads r.next after waking r's caller, whose ReqFree clears it:
// later waiters are never woken.
func TestF12a_FanoutStopsAfterFirstWaiter(t *testing.T) {
	a, b := net.Pipe()
	seen := make(chan bool, 8)
	peer(t, b, 8192, func([]byte) { seen <- true })
	c, err := g.Connect(conn{a}, 8192, false)
	if err != nil {
		t.Fatal(err)
	}
	// let the woken caller finish ReqFree before the loop advances (the order the scheduler may pick)
	g.VerifSetHook(func(p string, args ...interface{}) {
		if p == "clnt.recv.fanout.sent" {
			time.Sleep(20 * time.Millisecond)
		}
	})
	defer g.VerifSetHook(nil)
	wg, _ := callers(c, 3)
	for i := 0; i < 3; i++ {
		<-seen
	}
	b.Close() // the connection breaks with three calls outstanding
	if !waitOrHang(wg, 3*time.Second) {
		t.Fatal("outstanding calls still blocked 3 s after the connection broke")
	}
}

// F-12b: every call refused after a failure leaks its tag.
func TestF12b_RefusedCallLeaksTag(t *testing.T) {
	a, b := net.Pipe()
	peer(t, b, 8192, func([]byte) {})
	c, err := g.Connect(conn{a}, 8192, false)
	if err != nil {
		t.Fatal(err)
	}
	b.Close()
	time.Sleep(50 * time.Millisecond)
	before := g.VerifClnt(c)
	for i := 0; i < 100; i++ {
		tc := c.NewFcall()
		g.PackTstat(tc, 1)
		if _, err := c.Rpc(tc); err == nil {
			t.Fatal("call succeeded on a broken connection")
		}
	}
	after := g.VerifClnt(c)
	if after.FreeTags+after.Cached != before.FreeTags+before.Cached {
		t.Fatalf("tags available before 100 refused calls: %d, after: %d", before.FreeTags+before.Cached, after.FreeTags+after.Cached)
	}
}

// F-12c: a frame announcing more than 8*msize bytes fills the buffer; Read on the empty
// window returns (0, nil) and oerr.Error() dereferences nil.
func TestF12c_OversizeFrame(t *testing.T) {
	a, b := net.Pipe()
	peer(t, b, 128, func([]byte) {
		big := make([]byte, 2000)
		binary.LittleEndian.PutUint32(big, 1<<20)
		big[4] = g.Rstat
		b.Write(big)
	})
	c, err := g.Connect(conn{a}, 128, false)
	if err != nil {
		t.Fatal(err)
	}
	wg, errs := callers(c, 1)
	if !waitOrHang(wg, 3*time.Second) {
		t.Fatal("call blocked after an oversize frame")
	}
	if errs[0] == nil {
		t.Fatal("call succeeded")
	}
}

// F-14: a caller between Unlock and `reqout <- r` when the receiver exits is blocked
// forever, and blocks the fan-out behind it.
func TestF14_CallerBetweenEnqueueAndHandoff(t *testing.T) {
	a, b := net.Pipe()
	peer(t, b, 8192, func([]byte) {})
	c, err := g.Connect(conn{a}, 8192, false)
	if err != nil {
		t.Fatal(err)
	}
	parked := make(chan bool)
	release := make(chan bool)
	g.VerifSetHook(func(p string, args ...interface{}) {
		if p == "rpcnb.enqueued" {
			parked <- true
			<-release
		}
	})
	defer g.VerifSetHook(nil)
	wg, _ := callers(c, 1)
	<-parked
	b.Close() // the connection breaks while the caller sits between enqueue and hand-off
	time.Sleep(100 * time.Millisecond)
	close(release)
	if !waitOrHang(wg, 3*time.Second) {
		t.Fatal("the call never returned")
	}
}
