module verif/witness

go 1.23.12

require github.com/rminnich/go9p v0.0.0

replace github.com/rminnich/go9p => /repo
