package witness

import (
	"testing"
	"time"

	g "github.com/rminnich/go9p"
)

// F-11a: with a tiny msize an Rerror that does not fit is never packed; the writer then
// traps in SetTag (fresh buffer) or sends the previous reply again (recycled buffer).
func TestF11a_ErrorLongerThanMsize(t *testing.T) {
	c, _ := serve(t, &ops{}, 24, false)
	version(t, c, 24, "9P2000")
	attach(t, c, 1)
	// "fid already in use" makes a 27-byte Rerror
	r := rpc(t, c, false, 2, func(fc *g.Fcall) error { return g.PackTattach(fc, 1, g.NOFID, "", "", 0, false) })
	if r.Type != g.Rerror || r.Tag != 2 {
		t.Fatalf("want an Rerror for tag 2, got %v", r)
	}
	if r.Size > 24 {
		t.Fatalf("reply of %d bytes on an msize-24 connection", r.Size)
	}
}

// F-11b: reply buffers allocated before the negotiation keep their size: a reply longer
// than the negotiated msize is sent.
func TestF11b_RecycledBufferExceedsMsize(t *testing.T) {
	c, _ := serve(t, &ops{}, 8192, false)
	version(t, c, 8192, "9P2000")
	version(t, c, 24, "9P2000") // renegotiate down; the first Rversion's buffer is now pooled
	attach(t, c, 1)
	for i := 0; i < 3; i++ {
		r := rpc(t, c, false, uint16(2+i), func(fc *g.Fcall) error { return g.PackTattach(fc, 1, g.NOFID, "", "", 0, false) })
		if r.Size > 24 {
			t.Fatalf("reply of %d bytes on an msize-24 connection: %v", r.Size, r)
		}
	}
}

// F-18: a recycled reply Fcall keeps the Type of its previous use; a request cancelled
// before work is "answered" without any Pack*, and readPost acts on the stale Rread.
func TestF18_StaleReplyTypeOnCancelledRequest(t *testing.T) {
	o := &ops{gate: map[string]chan bool{"stat": make(chan bool)}}
	c, _ := serve(t, o, 8192, false)
	version(t, c, 8192, "9P2000")
	attach(t, c, 1)
	rpc(t, c, false, 2, func(fc *g.Fcall) error { return g.PackTwalk(fc, 1, 2, []string{"file"}) })
	rpc(t, c, false, 2, func(fc *g.Fcall) error { return g.PackTopen(fc, 2, g.OREAD) })
	// make sure every pooled reply buffer last held an Rread
	for i := 0; i < 70; i++ {
		r := rpc(t, c, false, 3, func(fc *g.Fcall) error { return g.PackTread(fc, 2, 0, 4) })
		if r.Type != g.Rread {
			t.Fatalf("read: %v", r)
		}
	}
	fc := g.NewFcall(8192)
	g.PackTstat(fc, 1)
	send(t, c, fc, 5) // parked in the implementation
	time.Sleep(30 * time.Millisecond)
	fc2 := g.NewFcall(8192)
	g.PackTread(fc2, 2, 0, 4)
	send(t, c, fc2, 5) // queued behind it, holding a recycled buffer
	time.Sleep(30 * time.Millisecond)
	fl := g.NewFcall(8192)
	g.PackTflush(fl, 5)
	send(t, c, fl, 6) // cancels the queued Tread
	time.Sleep(50 * time.Millisecond)
	close(o.gate["stat"])
	for i := 0; i < 2; i++ {
		recv(t, c, false)
	}
	r := rpc(t, c, false, 7, func(fc *g.Fcall) error { return g.PackTstat(fc, 1) })
	if r.Type != g.Rstat {
		t.Fatalf("server not serving after the cancelled request: %v", r)
	}
}

// F-13: with Maxpend = 0 a request that answers after the disconnect blocks forever.
func TestF13_RespondAfterDisconnectBlocks(t *testing.T) {
	o := &ops{gate: map[string]chan bool{"stat": make(chan bool)}}
	c, _ := serve(t, o, 8192, false)
	version(t, c, 8192, "9P2000")
	attach(t, c, 1)
	fc := g.NewFcall(8192)
	g.PackTstat(fc, 1)
	send(t, c, fc, 5)
	time.Sleep(30 * time.Millisecond)
	c.Close()
	time.Sleep(30 * time.Millisecond)
	done := make(chan bool)
	go func() {
		// the implementation's goroutine returns from Stat only when Respond returned
		o.mu.Lock()
		ch := o.gate["stat"]
		o.mu.Unlock()
		close(ch)
		time.Sleep(200 * time.Millisecond)
		done <- true
	}()
	<-done
	if n := stuckInRespond(); n > 0 {
		t.Fatalf("%d goroutine(s) blocked in (*SrvReq).Respond after the disconnect", n)
	}
}
