package witness

import (
	"testing"
	"time"

	g "github.com/rminnich/go9p"
)

// F-4: a request whose fid is NOFID skips the lookup; the handler dereferences nil.
func TestF4_ClunkNofid(t *testing.T) {
	c, _ := serve(t, &ops{}, 8192, false)
	version(t, c, 8192, "9P2000")
	r := rpc(t, c, false, 2, func(fc *g.Fcall) error { return g.PackTclunk(fc, g.NOFID) })
	if r.Type != g.Rerror || r.Error != "unknown fid" {
		t.Fatalf("want Rerror unknown fid, got %v", r)
	}
}

// F-5: Tattach with an unknown afid answers Rerror and then carries on.
func TestF5_AttachUnknownAfid(t *testing.T) {
	o := &ops{}
	c, _ := serve(t, o, 8192, false)
	version(t, c, 8192, "9P2000")
	r := rpc(t, c, false, 2, func(fc *g.Fcall) error { return g.PackTattach(fc, 1, 77, "u", "", 0, false) })
	if r.Type != g.Rerror || r.Error != "unknown fid" {
		t.Fatalf("want Rerror unknown fid, got %v", r)
	}
	time.Sleep(50 * time.Millisecond)
	for _, s := range o.calls {
		if s == "attach" {
			t.Fatal("attach reached the implementation after the error reply")
		}
	}
	// and fid 1 must not have become valid
	r = rpc(t, c, false, 3, func(fc *g.Fcall) error { return g.PackTstat(fc, 1) })
	if r.Type != g.Rerror {
		t.Fatalf("fid 1 valid after refused attach: %v", r)
	}
}

// F-6: tc.Count+IOHDRSZ wraps in uint32, a huge count reaches the implementation.
func TestF6_ReadCountWraps(t *testing.T) {
	o := &ops{}
	c, _ := serve(t, o, 8192, false)
	version(t, c, 8192, "9P2000")
	attach(t, c, 1)
	rpc(t, c, false, 2, func(fc *g.Fcall) error { return g.PackTopen(fc, 1, g.OREAD) })
	r := rpc(t, c, false, 3, func(fc *g.Fcall) error { return g.PackTread(fc, 1, 0, 1<<32-16) })
	if r.Type != g.Rerror || r.Error != "i/o count too large" {
		t.Fatalf("want Rerror i/o count too large, got %v", r)
	}
	for _, s := range o.calls {
		if s == "read" {
			t.Fatal("read with count 2^32-16 reached the implementation")
		}
	}
}

// F-20: a fid opened OEXEC may be written through.
func TestF20_WriteThroughOexec(t *testing.T) {
	o := &ops{}
	c, _ := serve(t, o, 8192, false)
	version(t, c, 8192, "9P2000")
	attach(t, c, 1)
	rpc(t, c, false, 2, func(fc *g.Fcall) error { return g.PackTwalk(fc, 1, 2, []string{"file"}) })
	rpc(t, c, false, 2, func(fc *g.Fcall) error { return g.PackTopen(fc, 2, g.OEXEC) })
	r := rpc(t, c, false, 3, func(fc *g.Fcall) error { return g.PackTwrite(fc, 2, 0, 1, []byte{1}) })
	if r.Type != g.Rerror {
		t.Fatalf("write through an OEXEC fid was forwarded: %v", r)
	}
}

// F-19: an in-place partial walk retypes the (directory) fid.
func TestF19_PartialInPlaceWalkRetypes(t *testing.T) {
	o := &ops{}
	c, _ := serve(t, o, 8192, false)
	version(t, c, 8192, "9P2000")
	attach(t, c, 1)
	r := rpc(t, c, false, 2, func(fc *g.Fcall) error { return g.PackTwalk(fc, 1, 1, []string{"file", "missing"}) })
	if r.Type != g.Rwalk || len(r.Wqid) != 1 {
		t.Fatalf("partial walk: %v", r)
	}
	// fid 1 is still the directory it was: a walk by name must reach the implementation
	r = rpc(t, c, false, 3, func(fc *g.Fcall) error { return g.PackTwalk(fc, 1, 3, []string{"dir"}) })
	if r.Type != g.Rwalk {
		t.Fatalf("directory fid no longer walkable after partial in-place walk: %v", r)
	}
}

// F-3: a request flushed before work began is answered and then processed anyway.
func TestF3_FlushedRequestStillRuns(t *testing.T) {
	o := &ops{gate: map[string]chan bool{"stat": make(chan bool)}}
	c, _ := serve(t, o, 8192, false)
	version(t, c, 8192, "9P2000")
	attach(t, c, 1)
	// tag 5: a Tstat parked in the implementation; a Twalk queued behind it under the same tag
	fc := g.NewFcall(8192)
	g.PackTstat(fc, 1)
	send(t, c, fc, 5)
	time.Sleep(30 * time.Millisecond)
	fc2 := g.NewFcall(8192)
	g.PackTwalk(fc2, 1, 9, nil)
	send(t, c, fc2, 5)
	time.Sleep(30 * time.Millisecond)
	// flush tag 5: hits the newest request of the chain, the queued Twalk, before it started
	fl := g.NewFcall(8192)
	g.PackTflush(fl, 5)
	send(t, c, fl, 6)
	time.Sleep(30 * time.Millisecond)
	close(o.gate["stat"])
	seen := map[uint8]int{}
	for i := 0; i < 2; i++ {
		r := recv(t, c, false)
		seen[r.Type]++
	}
	time.Sleep(50 * time.Millisecond)
	// the cancelled Twalk must not have created fid 9
	r := rpc(t, c, false, 7, func(fc *g.Fcall) error { return g.PackTstat(fc, 9) })
	if r.Type != g.Rerror {
		t.Fatalf("cancelled Twalk left fid 9 behind (replies seen %v): %v", seen, r)
	}
}

// F-21: a refused second Topen clears the fid's "opened" flag (openPost runs on the
// Rerror), so a later legal write through the really open fid is refused.
func TestF21_RefusedOpenClosesFid(t *testing.T) {
	o := &ops{}
	c, _ := serve(t, o, 8192, false)
	version(t, c, 8192, "9P2000")
	attach(t, c, 1)
	rpc(t, c, false, 2, func(fc *g.Fcall) error { return g.PackTwalk(fc, 1, 2, []string{"file"}) })
	r := rpc(t, c, false, 2, func(fc *g.Fcall) error { return g.PackTopen(fc, 2, g.ORDWR) })
	if r.Type != g.Ropen {
		t.Fatalf("open: %v", r)
	}
	r = rpc(t, c, false, 2, func(fc *g.Fcall) error { return g.PackTopen(fc, 2, g.ORDWR) })
	if r.Type != g.Rerror {
		t.Fatalf("second open not refused: %v", r)
	}
	r = rpc(t, c, false, 3, func(fc *g.Fcall) error { return g.PackTwrite(fc, 2, 0, 1, []byte{1}) })
	if r.Type != g.Rwrite {
		t.Fatalf("write through the open fid refused after a refused second open: %v", r)
	}
}

// F-22: Twalk may create a fid numbered NOFID, which no later request can name
// (every request on NOFID is refused), so it can never be used or clunked.
func TestF22_WalkToNofid(t *testing.T) {
	o := &ops{}
	c, _ := serve(t, o, 8192, false)
	version(t, c, 8192, "9P2000")
	attach(t, c, 1)
	r := rpc(t, c, false, 2, func(fc *g.Fcall) error { return g.PackTwalk(fc, 1, g.NOFID, nil) })
	if r.Type == g.Rwalk {
		// the walk "succeeded": then NOFID is a valid fid and must be usable
		r2 := rpc(t, c, false, 3, func(fc *g.Fcall) error { return g.PackTclunk(fc, g.NOFID) })
		if r2.Type != g.Rclunk {
			t.Fatalf("Twalk to newfid NOFID succeeded (%v) but the fid cannot be clunked: %v", r, r2)
		}
	}
}

// K-2/F-26: a request naming a fid whose Twalk is still executing must not reach the file
// server (the Unix file server dereferences the fid's Aux, which the walk has not set yet).
func TestF26_RequestOnFidBeingCreated(t *testing.T) {
	o := &ops{gate: map[string]chan bool{"walk": make(chan bool)}}
	c, _ := serve(t, o, 8192, false)
	version(t, c, 8192, "9P2000")
	attach(t, c, 1)
	fc := g.NewFcall(8192)
	g.PackTwalk(fc, 1, 9, []string{"a"})
	send(t, c, fc, 5)
	time.Sleep(30 * time.Millisecond) // the walk is parked inside the implementation; fid 9 is in the table
	r := rpc(t, c, false, 6, func(fc *g.Fcall) error { return g.PackTstat(fc, 9) })
	o.mu.Lock()
	calls := append([]string(nil), o.calls...)
	o.mu.Unlock()
	close(o.gate["walk"])
	recv(t, c, false)
	for _, x := range calls {
		if x == "stat" {
			t.Fatalf("Tstat on fid 9 reached the implementation while the Twalk creating it was still executing (reply %v)", r)
		}
	}
	if r.Type != g.Rerror {
		t.Fatalf("Tstat on a fid being created: %v, want Rerror", r)
	}
}
