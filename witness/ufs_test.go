package witness

import (
	"net"
	"os"
	"path/filepath"
	"sync"
	"testing"

	g "github.com/rminnich/go9p"
)

func ufsClient(t *testing.T, root string, msize uint32, dotu bool) (*g.Clnt, *g.Ufs) {
	u := new(g.Ufs)
	u.Root = root
	u.Dotu = dotu
	u.Msize = msize + 24
	if !u.Start(u) {
		t.Fatal("ufs start")
	}
	a, b := net.Pipe()
	u.NewConn(conn{a})
	c, err := g.Connect(conn{b}, msize+24, dotu)
	if err != nil {
		t.Fatal(err)
	}
	fid, err := c.Attach(nil, g.OsUsers.Uid2User(os.Getuid()), "")
	if err != nil {
		t.Fatal(err)
	}
	c.Root = fid
	return c, u
}

func tree(t *testing.T) (outer, root string) {
	outer = t.TempDir()
	root = filepath.Join(outer, "export")
	os.MkdirAll(filepath.Join(root, "d", "e"), 0o755)
	os.WriteFile(filepath.Join(root, "d", "file"), []byte("hello world"), 0o644)
	os.WriteFile(filepath.Join(outer, "secret"), []byte("TOP SECRET"), 0o644)
	return
}

// F-7: a directory read at an offset past the end, or inside a record, traps the server.
func TestF7_DirReadBadOffset(t *testing.T) {
	_, root := tree(t)
	c, _ := ufsClient(t, root, 8192, false)
	f, err := c.FOpen("d", g.OREAD)
	if err != nil {
		t.Fatal(err)
	}
	if _, err := c.Read(f.Fid, 0, 4096); err != nil {
		t.Fatal(err)
	}
	for _, off := range []uint64{100000, 5} {
		_, err := c.Read(f.Fid, off, 4096)
		t.Logf("offset %d: %v", off, err)
	}
	if _, err := c.FStat("d"); err != nil {
		t.Fatalf("server gone: %v", err)
	}
}

// F-8: the errno of a failed POSIX call is never unwrapped: every .u error number is EIO.
func TestF8_ErrnoLost(t *testing.T) {
	_, root := tree(t)
	c, _ := ufsClient(t, root, 8192, true)
	err := c.FRemove("d") // directory not empty
	e, ok := err.(*g.Error)
	if !ok {
		t.Fatalf("want *Error, got %v", err)
	}
	if e.Errornum == g.EIO {
		t.Fatalf("remove of a non-empty directory reported as EIO (5): %q", e.Err)
	}
}

// F-9: an in-place partial walk moves the fid.
func TestF9_PartialWalkMovesFid(t *testing.T) {
	_, root := tree(t)
	c, _ := ufsClient(t, root, 8192, false)
	fid, err := c.FWalk("d")
	if err != nil {
		t.Fatal(err)
	}
	qs, err := c.Walk(fid, fid, []string{"e", "missing"})
	if err != nil || len(qs) != 1 {
		t.Fatalf("partial walk: %v %v", qs, err)
	}
	st, err := c.Stat(fid)
	if err != nil {
		t.Fatal(err)
	}
	if st.Name != "d" {
		t.Fatalf("fid designates %q after a partial in-place walk, want d", st.Name)
	}
}

// F-10: Readn across end of file returns (0, EOF) instead of the bytes read.
func TestF10_ReadnAcrossEOF(t *testing.T) {
	_, root := tree(t)
	c, _ := ufsClient(t, root, 8192, false)
	f, err := c.FOpen("d/file", g.OREAD)
	if err != nil {
		t.Fatal(err)
	}
	buf := make([]byte, 100)
	n, err := f.Readn(buf, 0)
	if n != 11 || err != nil {
		t.Fatalf("Readn(100 bytes of an 11-byte file) = %d, %v", n, err)
	}
}

// F-15: '..' leaves the exported tree.
func TestF15_DotDotEscapes(t *testing.T) {
	_, root := tree(t)
	c, _ := ufsClient(t, root, 8192, false)
	nf := c.FidAlloc()
	qs, err := c.Walk(c.Root, nf, []string{"..", "secret"})
	if err == nil && len(qs) == 2 {
		if err := c.Open(nf, g.OREAD); err == nil {
			b, _ := c.Read(nf, 0, 100)
			t.Fatalf("read a file outside the export: %q", b)
		}
		t.Fatalf("walked to a file outside the export")
	}
}

// F-16: concurrent walks from one shared fid race on the source fid's cached stat (run with -race).
func TestF16_SharedFidWalkRace(t *testing.T) {
	_, root := tree(t)
	c, _ := ufsClient(t, root, 8192, false)
	var wg sync.WaitGroup
	for i := 0; i < 8; i++ {
		wg.Add(1)
		go func() {
			defer wg.Done()
			for j := 0; j < 50; j++ {
				if fid, err := c.FWalk("d/e"); err == nil {
					c.Clunk(fid)
				}
			}
		}()
	}
	wg.Wait()
}

// F-27: requests a client sends concurrently on one directory fid close and reopen the
// directory under each other's Readdir: nil dereference inside os.(*File).readdir, which
// takes the whole server down.
func TestF27_ConcurrentDirReadsOnOneFid(t *testing.T) {
	_, root := tree(t)
	for i := 0; i < 300; i++ {
		os.WriteFile(filepath.Join(root, "d", "f"+string(rune('a'+i%26))+string(rune('a'+i/26))), []byte("x"), 0o644)
	}
	c, _ := ufsClient(t, root, 8192, false)
	f, err := c.FOpen("d", g.OREAD)
	if err != nil {
		t.Fatal(err)
	}
	var wg sync.WaitGroup
	for w := 0; w < 8; w++ {
		wg.Add(1)
		go func() {
			defer wg.Done()
			for i := 0; i < 300; i++ {
				tc := c.NewFcall()
				g.PackTread(tc, f.Fid.Fid, 0, 8192)
				c.Rpc(tc)
			}
		}()
	}
	wg.Wait()
}

// F-28: the connection is dropped (a malformed frame) while a Twalk is still creating its newfid:
// Conn.close handed the half-made fid to FidDestroy while Ufs.Walk was storing its Aux — a torn
// read of the interface value, nil dereference, process gone. Rare: needs many tries.
func TestF28_DisconnectWhileWalkCreatesFid(t *testing.T) {
	_, root := tree(t)
	u := new(g.Ufs)
	u.Root = root
	u.Msize = 8192
	if !u.Start(u) {
		t.Fatal("ufs start")
	}
	uname := g.OsUsers.Uid2User(os.Getuid()).Name()
	mk := func(tag uint16, pack func(fc *g.Fcall) error) []byte {
		fc := g.NewFcall(8192)
		pack(fc)
		g.SetTag(fc, tag)
		return append([]byte(nil), fc.Pkt...)
	}
	var wg sync.WaitGroup
	for w := 0; w < 8; w++ {
		wg.Add(1)
		go func() {
			defer wg.Done()
			for i := 0; i < 300; i++ {
				a, b := net.Pipe()
				u.NewConn(conn{a})
				go func() {
					buf := make([]byte, 65536)
					for {
						if _, err := b.Read(buf); err != nil {
							return
						}
					}
				}()
				var s []byte
				s = append(s, mk(g.NOTAG, func(fc *g.Fcall) error { return g.PackTversion(fc, 8192, "9P2000") })...)
				s = append(s, mk(1, func(fc *g.Fcall) error { return g.PackTattach(fc, 0, g.NOFID, uname, "", uint32(os.Getuid()), false) })...)
				for k := uint32(1); k < 6; k++ {
					kk := k
					s = append(s, mk(uint16(1+k), func(fc *g.Fcall) error { return g.PackTwalk(fc, 0, kk, []string{"d"}) })...)
				}
				s = append(s, 7, 0, 0, 0, 120, 1, 0) // a 7-byte Tclunk: malformed, ends the connection
				b.Write(s)
				b.Close()
			}
		}()
	}
	wg.Wait()
}
